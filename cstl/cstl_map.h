/* cstl_map.h -- contract of std::unordered_map<K,V> / std::map<K,V> (unique keys) with node pool.
 * X-include: define CSTL_NAME, CSTL_K, CSTL_V, CSTL_NP; define CSTL_MAP_HASHED for unordered_map
 * (adds reserve / max_load_factor and the no-rehash precondition on emplace).
 * end() is the constant CSTL_NAME_END (== pool size); a dereferenceable iterator is a live node id.
 * Iteration order is never used by libcappuccino and is not modelled (++ on these iterators has no
 * rule in the extractor, so a change that starts iterating aborts extraction rather than verifying).
 */
#define M_ CSTL_NAME
#define MP_ CSTL_CAT(CSTL_NAME, _pool)
#define MN_ CSTL_CAT(CSTL_NAME, _node)
#define F_(f) CSTL_CAT(CSTL_NAME, f)

typedef struct
{
    CSTL_K first;
    CSTL_V second;
} MN_;

typedef struct
{
    MN_  kv[CSTL_NP];
    bool alive[CSTL_NP];
} MP_;

typedef struct
{
    uint64_t size;
#ifdef CSTL_MAP_HASHED
    uint64_t reserved; /* n of the last reserve(n): no rehash while size() <= reserved */
    float    mlf;      /* max_load_factor: carried, uninterpreted                      */
#endif
} M_;

enum { F_(_NP) = CSTL_NP, F_(_END) = CSTL_NP };

static inline bool F_(_deref_ok)(const MP_ *P, cstl_iter it) { return it < CSTL_NP && P->alive[it]; }

static inline void F_(_pool_init)(MP_ *P)
{
    for (cstl_iter n = 0; n < CSTL_NP; n++) P->alive[n] = false;
}
static inline void F_(_ctor)(MP_ *P, M_ *m)
{
    (void)P;
    m->size = 0;
#ifdef CSTL_MAP_HASHED
    m->reserved = 0;
    m->mlf      = 1.0f;
#endif
}
static inline cstl_iter F_(_end)(const MP_ *P, const M_ *m) { (void)P; (void)m; return F_(_END); }
static inline uint64_t  F_(_size)(const M_ *m) { return m->size; }

static inline cstl_iter F_(_find)(const MP_ *P, const M_ *m, CSTL_K k)
{
    (void)m;
    for (cstl_iter n = 0; n < CSTL_NP; n++)
        if (P->alive[n] && P->kv[n].first == k) return n;
    return F_(_END);
}
/* it->, *it */
static inline MN_ *F_(_deref)(MP_ *P, cstl_iter it)
{
    CSTL_ASSERT(F_(_deref_ok)(P, it), "std.map.iterator->: iterator valid and not end() [C08]");
    return &P->kv[it];
}
static inline cstl_emplace_result F_(_emplace)(MP_ *P, M_ *m, CSTL_K k, CSTL_V v)
{
    cstl_emplace_result r;
    cstl_iter           e = F_(_find)(P, m, k);
    if (e != F_(_END)) { r.first = e; r.second = false; return r; }
#ifdef CSTL_MAP_HASHED
    CSTL_ASSERT(m->size + 1 <= m->reserved, "std.unordered_map.emplace: no rehash (size()+1 <= reserve(n)), stored iterators stay valid [C01 C08]");
#endif
    cstl_iter n;
#if defined(CSTL_CBMC) && !defined(CSTL_DETERMINISTIC)
    n = nondet_u64();
    CSTL_ASSUME(n < CSTL_NP && !P->alive[n]);
#elif defined(CSTL_CBMC)
    n = CSTL_NP;
    for (cstl_iter i = 0; i < CSTL_NP; i++)
        if (n == CSTL_NP && !P->alive[i]) n = i;
    CSTL_ASSUME(n < CSTL_NP);
#else
    for (n = 0; n < CSTL_NP; n++)
        if (!P->alive[n]) break;
    if (n == CSTL_NP) cstl_fail("native: map node pool exhausted (model bound)");
#endif
    P->alive[n] = true; P->kv[n].first = k; P->kv[n].second = v;
    m->size++;
    r.first = n; r.second = true;
    return r;
}
static inline cstl_iter F_(_erase)(MP_ *P, M_ *m, cstl_iter it)
{
    CSTL_ASSERT(F_(_deref_ok)(P, it), "std.map.erase: iterator valid and dereferenceable [C08]");
    P->alive[it] = false;
    m->size--;
    return F_(_END);
}
static inline void F_(_clear)(MP_ *P, M_ *m)
{
    for (cstl_iter n = 0; n < CSTL_NP; n++) P->alive[n] = false;
    m->size = 0;
}
#ifdef CSTL_MAP_HASHED
static inline void F_(_reserve)(MP_ *P, M_ *m, uint64_t n) { (void)P; if (n > m->reserved) m->reserved = n; }
static inline void F_(_max_load_factor)(MP_ *P, M_ *m, float f) { (void)P; m->mlf = f; }
#endif

/* specification helper: number of live nodes */
static inline uint64_t F_(_pool_alive)(const MP_ *P)
{
    uint64_t n = 0;
    for (cstl_iter i = 0; i < CSTL_NP; i++) if (P->alive[i]) n++;
    return n;
}

#undef M_
#undef MP_
#undef MN_
#undef F_
#undef CSTL_NAME
#undef CSTL_K
#undef CSTL_V
#undef CSTL_NP
#undef CSTL_MAP_HASHED
