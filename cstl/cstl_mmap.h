/* cstl_mmap.h -- contract of std::multimap<K,V> with node pool.  X-include: CSTL_NAME, CSTL_K,
 * CSTL_V, CSTL_NP.  begin(), ++it/std::next(it), emplace(), erase(it), size(), clear(), it-> are modelled (libcappuccino uses all
 * but the iterator increment).  begin() is an entry with the minimal key; among equal keys
 *   native build: the earliest inserted (C++11 [associative.reqmts]: emplace inserts at the upper
 *                 bound), so the co-simulation agrees with libstdc++;
 *   CBMC build:   ANY of the minimal entries (over-approximation: the properties never depend on
 *                 tie order).
 */
#define M_ CSTL_NAME
#define MP_ CSTL_CAT(CSTL_NAME, _pool)
#define MN_ CSTL_CAT(CSTL_NAME, _node)
#define F_(f) CSTL_CAT(CSTL_NAME, f)

typedef struct
{
    CSTL_K first;
    CSTL_V second;
} MN_;

typedef struct
{
    MN_      kv[CSTL_NP];
    bool     alive[CSTL_NP];
    uint64_t seq[CSTL_NP]; /* native only: insertion sequence for tie order */
} MP_;

typedef struct
{
    uint64_t size;
    uint64_t seqctr;
} M_;

enum { F_(_NP) = CSTL_NP, F_(_END) = CSTL_NP };

static inline bool F_(_deref_ok)(const MP_ *P, cstl_iter it) { return it < CSTL_NP && P->alive[it]; }
static inline void F_(_pool_init)(MP_ *P)
{
    for (cstl_iter n = 0; n < CSTL_NP; n++) { P->alive[n] = false; P->seq[n] = 0; }
}
static inline void F_(_ctor)(MP_ *P, M_ *m) { (void)P; m->size = 0; m->seqctr = 0; }
static inline uint64_t F_(_size)(const M_ *m) { return m->size; }

static inline cstl_iter F_(_begin)(const MP_ *P, const M_ *m)
{
    if (m->size == 0) return F_(_END);
#if defined(CSTL_CBMC) && !defined(CSTL_DETERMINISTIC)
    cstl_iter r = nondet_u64();
    CSTL_ASSUME(r < CSTL_NP && P->alive[r]);
    for (cstl_iter n = 0; n < CSTL_NP; n++) CSTL_ASSUME(!(P->alive[n] && P->kv[n].first < P->kv[r].first));
    return r;
#elif defined(CSTL_CBMC)
    /* relational (C18) harnesses: ties are broken by a function of the container content (lowest node id), as
     * libstdc++ breaks them by a function of the content (insertion order); both copies then agree */
    cstl_iter r = F_(_END);
    for (cstl_iter n = 0; n < CSTL_NP; n++)
        if (P->alive[n] && (r == F_(_END) || P->kv[n].first < P->kv[r].first)) r = n;
    return r;
#else
    cstl_iter r = F_(_END);
    for (cstl_iter n = 0; n < CSTL_NP; n++)
        if (P->alive[n] && (r == F_(_END) || P->kv[n].first < P->kv[r].first || (P->kv[n].first == P->kv[r].first && P->seq[n] < P->seq[r]))) r = n;
    return r;
#endif
}
static inline cstl_iter F_(_end)(const MP_ *P, const M_ *m) { (void)P; (void)m; return F_(_END); }
static inline MN_ *F_(_deref)(MP_ *P, cstl_iter it)
{
    CSTL_ASSERT(F_(_deref_ok)(P, it), "std.multimap.iterator->: iterator valid and not end() [C08]");
    return &P->kv[it];
}
/* ++it / std::next(it): the in-order successor, end() after the last entry.  Among equal keys
 *   native build: insertion order (as begin());
 *   CBMC build:   ANY entry that may follow `it` in SOME order of the ties: an entry with a key >= it's key and no entry
 *                 strictly between the two keys; end() only if no entry has a larger key (over-approximation);
 *   relational:   ties in node-id order (a function of the content). */
static inline cstl_iter F_(_next)(const MP_ *P, cstl_iter it)
{
    CSTL_ASSERT(F_(_deref_ok)(P, it), "std.multimap.iterator++: iterator valid and not end() [C08]");
#if defined(CSTL_CBMC) && !defined(CSTL_DETERMINISTIC)
    cstl_iter r = nondet_u64();
    CSTL_ASSUME(r == F_(_END) || (r < CSTL_NP && r != it && P->alive[r] && !(P->kv[r].first < P->kv[it].first)));
    for (cstl_iter n = 0; n < CSTL_NP; n++)
    {
        if (!P->alive[n] || n == it || n == r) continue;
        if (r == F_(_END)) CSTL_ASSUME(!(P->kv[it].first < P->kv[n].first));
        else CSTL_ASSUME(!(P->kv[it].first < P->kv[n].first && P->kv[n].first < P->kv[r].first));
    }
    return r;
#else
    cstl_iter r = F_(_END);
    for (cstl_iter n = 0; n < CSTL_NP; n++)
    {
        if (!P->alive[n] || n == it) continue;
#ifdef CSTL_CBMC
        bool after = P->kv[it].first < P->kv[n].first || (P->kv[n].first == P->kv[it].first && it < n);
        bool closer = r == F_(_END) || P->kv[n].first < P->kv[r].first || (P->kv[n].first == P->kv[r].first && n < r);
#else
        bool after = P->kv[it].first < P->kv[n].first || (P->kv[n].first == P->kv[it].first && P->seq[it] < P->seq[n]);
        bool closer = r == F_(_END) || P->kv[n].first < P->kv[r].first || (P->kv[n].first == P->kv[r].first && P->seq[n] < P->seq[r]);
#endif
        if (after && closer) r = n;
    }
    return r;
#endif
}
static inline cstl_iter F_(_emplace)(MP_ *P, M_ *m, CSTL_K k, CSTL_V v)
{
    cstl_iter n;
#if defined(CSTL_CBMC) && !defined(CSTL_DETERMINISTIC)
    n = nondet_u64();
    CSTL_ASSUME(n < CSTL_NP && !P->alive[n]);
#elif defined(CSTL_CBMC)
    n = CSTL_NP;
    for (cstl_iter i = 0; i < CSTL_NP; i++)
        if (n == CSTL_NP && !P->alive[i]) n = i;
    CSTL_ASSUME(n < CSTL_NP);
#else
    for (n = 0; n < CSTL_NP; n++)
        if (!P->alive[n]) break;
    if (n == CSTL_NP) cstl_fail("native: multimap node pool exhausted (model bound)");
#endif
    P->alive[n] = true; P->kv[n].first = k; P->kv[n].second = v;
#ifndef CSTL_CBMC
    P->seq[n] = m->seqctr++;
#endif
    m->size++;
    return n;
}
static inline cstl_iter F_(_erase)(MP_ *P, M_ *m, cstl_iter it)
{
    CSTL_ASSERT(F_(_deref_ok)(P, it), "std.multimap.erase: iterator valid and dereferenceable [C08]");
    P->alive[it] = false;
    m->size--;
    return F_(_END);
}
static inline void F_(_clear)(MP_ *P, M_ *m)
{
    for (cstl_iter n = 0; n < CSTL_NP; n++) P->alive[n] = false;
    m->size = 0;
}

/* specification helper: number of live nodes */
static inline uint64_t F_(_pool_alive)(const MP_ *P)
{
    uint64_t n = 0;
    for (cstl_iter i = 0; i < CSTL_NP; i++) if (P->alive[i]) n++;
    return n;
}

#undef M_
#undef MP_
#undef MN_
#undef F_
#undef CSTL_NAME
#undef CSTL_K
#undef CSTL_V
#undef CSTL_NP
