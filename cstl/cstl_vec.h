/* cstl_vec.h -- contract of std::vector<CSTL_T> as libcappuccino uses it: constructed with n
 * elements, never resized; operator[], size(), capacity().  X-include: CSTL_NAME, CSTL_T, CSTL_NP. */
#define V_ CSTL_NAME
#define F_(f) CSTL_CAT(CSTL_NAME, f)
typedef struct
{
    uint64_t size;
    CSTL_T   data[CSTL_NP];
} V_;
enum { F_(_NP) = CSTL_NP };
static inline void F_(_ctor_n)(V_ *v, uint64_t n)
{
    CSTL_ASSUME(n <= CSTL_NP); /* model bound: capacity <= MAXCAP */
    v->size = n;
    for (uint64_t i = 0; i < CSTL_NP; i++) { CSTL_T z = {0}; v->data[i] = z; }
}
static inline uint64_t F_(_size)(const V_ *v) { return v->size; }
static inline uint64_t F_(_capacity)(const V_ *v)
{
#ifdef CSTL_CBMC
    uint64_t c = nondet_u64(); /* the standard only promises capacity() >= size() */
    CSTL_ASSUME(c >= v->size);
    return c;
#else
    return v->size;
#endif
}
static inline CSTL_T *F_(_at)(V_ *v, uint64_t i)
{
    CSTL_ASSERT(i < v->size, "std.vector.operator[]: index < size() [C08]");
    return &v->data[i];
}
#undef V_
#undef F_
#undef CSTL_NAME
#undef CSTL_T
#undef CSTL_NP
