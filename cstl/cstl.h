/* cstl.h -- common part of the C contracts ("models") of the std:: components libcappuccino is
 * built from.  The same source is compiled three ways:
 *   -DCSTL_CBMC            symbolic: CBMC / goto-cc (preconditions are __CPROVER_assert, node
 *                          allocation and multimap tie-breaking are nondeterministic)
 *   (nothing)              native, executable: used by the co-simulation against the real library
 * Every operation asserts the precondition the C++ standard puts on it (these are C08
 * obligations); the ids of those assertions start with "std.".
 */
#ifndef CSTL_H
#define CSTL_H
#include <stdbool.h>
#include <stddef.h>
#include <stdint.h>

#ifndef MAXCAP
#define MAXCAP 3
#endif

typedef uint64_t cstl_iter; /* every std iterator is a node id in the node pool of its node type */
#define CSTL_NIL ((cstl_iter)0xFFFFFFFFu)

#ifdef CSTL_CBMC
#define CSTL_ASSERT(c, id) __CPROVER_assert((c), id)
#define CSTL_ASSUME(c) __CPROVER_assume(c)
uint64_t nondet_u64(void);
_Bool nondet_bool(void);
#else
void cstl_fail(const char *id); /* provided by the native driver: records a model-precondition failure */
#define CSTL_ASSERT(c, id) \
    do { if (!(c)) cstl_fail(id); } while (0)
#define CSTL_ASSUME(c) \
    do { if (!(c)) cstl_fail("native: model bound exceeded"); } while (0)
#endif

#define CSTL_CAT_(a, b) a##b
#define CSTL_CAT(a, b) CSTL_CAT_(a, b)

/* ---- time: steady_clock::time_point and durations are signed 64-bit counts -------------------- */
typedef int64_t cstl_tp; /* nanoseconds since epoch (steady_clock::time_point::rep is long)        */
typedef int64_t cstl_ms; /* std::chrono::milliseconds::rep is long                                  */
int64_t cstl_now(void);  /* steady_clock::now(): the ghost/virtual clock                            */

/* time_point<ns> + duration<ms>: the common type is ns; the conversion multiplies by 10^6.
 * Signed overflow is UB in the real code; it is a checked obligation here ("TTL representable"). */
/* duration_cast<nanoseconds>(milliseconds): multiply by 10^6.
 * native build: exact.
 * CBMC build: ABSTRACTED.  A symbolic 64-bit multiplication (and its overflow check) makes every SAT query
 * that touches a deadline intractable (measured: > 15 min instead of 90 s).  No property depends on the
 * factor, only on "deadline = clock reading + converted TTL", so the conversion of the ONE duration value
 * G_MS that a call converts is an unknown G_NS constrained by what any strictly monotone odd map gives:
 * sign and zero preserved, magnitude not decreased.  Converting a different value than G_MS is a model
 * bound (reported as undecided, never as a pass).  The exact factor is exercised by the co-simulation. */
#ifdef CSTL_CBMC
extern cstl_ms G_MS;
extern int64_t G_NS;
static inline int64_t cstl_ms_to_ns(cstl_ms d)
{
    CSTL_ASSERT(d == G_MS, "model bound: the call converts exactly one duration value (G_MS) to nanoseconds");
    CSTL_ASSUME((G_MS > 0) == (G_NS > 0) && (G_MS < 0) == (G_NS < 0));
    CSTL_ASSUME(G_MS >= 0 ? G_NS >= G_MS : G_NS <= G_MS);
    CSTL_ASSUME(!(G_MS <= INT64_MAX / 1000000 && G_MS >= INT64_MIN / 1000000) || (G_NS <= (INT64_MAX / 1000000) * 1000000 && G_NS >= (INT64_MIN / 1000000) * 1000000));
    return G_NS;
}
#else
static inline int64_t cstl_ms_to_ns(cstl_ms d) { return d * 1000000; }
#endif
static inline cstl_tp cstl_tp_add_ms(cstl_tp t, cstl_ms d)
{
    CSTL_ASSERT(d <= INT64_MAX / 1000000 && d >= INT64_MIN / 1000000, "std.chrono: ms->ns conversion overflows [C08]");
    int64_t dn = cstl_ms_to_ns(d);
    CSTL_ASSERT(!((dn > 0 && t > INT64_MAX - dn) || (dn < 0 && t < INT64_MIN - dn)), "std.chrono: time_point + duration overflows [C08]");
    return t + dn;
}

/* ---- std::mutex with ghost ownership state ---------------------------------------------------- */
typedef struct
{
    bool     held; /* ghost: locked                              */
    uint64_t acq;  /* ghost: number of acquisitions so far       */
} cstl_std_mutex;
static inline void cstl_std_mutex_lock(cstl_std_mutex *m)
{
    CSTL_ASSERT(!m->held, "std.mutex.lock: not already held by this call (self-deadlock) [C06 C07 C08]");
    m->held = true;
#ifdef CSTL_CBMC
    CSTL_ASSUME(m->acq < UINT64_MAX); /* ghost counter: fewer than 2^64 acquisitions (listed arithmetic assumption) */
#endif
    m->acq++;
}
static inline void cstl_std_mutex_unlock(cstl_std_mutex *m)
{
    CSTL_ASSERT(m->held, "std.mutex.unlock: held [C06 C07 C08]");
    m->held = false;
}

/* ---- std::optional / pair / tuple of 64-bit payloads ----------------------------------------- */
typedef struct { bool has; uint64_t v; } cstl_opt;                       /* optional<64-bit scalar or iterator> */
typedef struct { uint64_t first; uint64_t second; } cstl_pair;           /* pair<K,V>, pair<V,size_t>           */
typedef struct { bool has; cstl_pair v; } cstl_opt_pair;                 /* optional<pair<V,size_t>>            */
typedef struct { uint64_t first; cstl_opt second; } cstl_pair_kopt;      /* pair<K, optional<V>>                */
typedef struct { uint64_t first; bool second; } cstl_pair_kb;          /* pair<K,bool> (ut_set)               */
typedef struct { int64_t _0; uint64_t _1; uint64_t _2; } cstl_tuple3;    /* tuple<ms,K,V> (tlru insert_range)   */
typedef struct { cstl_iter first; bool second; } cstl_emplace_result;    /* pair<iterator,bool>                 */

static inline uint64_t cstl_opt_value(const cstl_opt *o)
{
    CSTL_ASSERT(o->has, "std.optional.value: has_value [C08]");
    return o->v;
}

/* ---- caller-supplied ranges (std::vector<...> arguments): begin/end are C pointers ------------ */
typedef struct { uint64_t len; uint64_t *data; } cstl_range_k;            /* vector<K>                  */
typedef struct { uint64_t len; cstl_pair *data; } cstl_range_kv;          /* vector<pair<K,V>>          */
typedef struct { uint64_t len; cstl_pair_kopt *data; } cstl_range_kopt;   /* vector<pair<K,optional<V>>>*/
typedef struct { uint64_t len; cstl_pair_kb *data; } cstl_range_kb;       /* vector<pair<K,bool>>       */
typedef struct { uint64_t len; cstl_tuple3 *data; } cstl_range_t3;        /* vector<tuple<ms,K,V>>      */

/* ---- the output vector of find_range: abstract (size + last element appended) ----------------- */
typedef struct
{
    uint64_t        size;
    uint64_t        reserved;
    cstl_pair_kopt  last;   /* the element most recently appended                                 */
    cstl_pair_kopt *sink;   /* native only: where the driver collects the elements (may be NULL)  */
    uint64_t        sink_cap;
} cstl_outvec;
#ifndef CSTL_CBMC
cstl_pair_kopt *cstl_native_sink(void);     /* native driver: where to collect appended elements */
uint64_t        cstl_native_sink_cap(void);
#endif
static inline void cstl_outvec_ctor(cstl_outvec *o)
{
    o->size = 0; o->reserved = 0; o->sink = 0; o->sink_cap = 0; o->last.first = 0; o->last.second.has = false; o->last.second.v = 0;
#ifndef CSTL_CBMC
    o->sink = cstl_native_sink(); o->sink_cap = cstl_native_sink_cap();
#endif
}
static inline void cstl_outvec_reserve(cstl_outvec *o, uint64_t n) { if (n > o->reserved) o->reserved = n; }
static inline void cstl_outvec_emplace_back(cstl_outvec *o, uint64_t k, cstl_opt v)
{
    o->last.first  = k;
    o->last.second = v;
#ifndef CSTL_CBMC
    if (o->sink && o->size < o->sink_cap) o->sink[o->size] = o->last;
#endif
    o->size++;
}

/* the same for ut_set::find_range (vector<pair<K,bool>>) */
typedef struct
{
    uint64_t      size;
    uint64_t      reserved;
    cstl_pair_kb  last;
    cstl_pair_kb *sink;
    uint64_t      sink_cap;
} cstl_outvec_kb;
#ifndef CSTL_CBMC
cstl_pair_kb *cstl_native_sink_kb(void);
#endif
static inline void cstl_outvec_kb_ctor(cstl_outvec_kb *o)
{
    o->size = 0; o->reserved = 0; o->sink = 0; o->sink_cap = 0; o->last.first = 0; o->last.second = false;
#ifndef CSTL_CBMC
    o->sink = cstl_native_sink_kb(); o->sink_cap = cstl_native_sink_cap();
#endif
}
static inline void cstl_outvec_kb_reserve(cstl_outvec_kb *o, uint64_t n) { if (n > o->reserved) o->reserved = n; }
static inline void cstl_outvec_kb_emplace_back(cstl_outvec_kb *o, uint64_t k, bool v)
{
    o->last.first  = k;
    o->last.second = v;
#ifndef CSTL_CBMC
    if (o->sink && o->size < o->sink_cap) o->sink[o->size] = o->last;
#endif
    o->size++;
}

static inline uint64_t cstl_max_u64(uint64_t a, uint64_t b) { return a < b ? b : a; } /* std::max / std::min */
static inline uint64_t cstl_min_u64(uint64_t a, uint64_t b) { return b < a ? b : a; }
static inline int64_t  cstl_max_i64(int64_t a, int64_t b) { return a < b ? b : a; }
static inline int64_t  cstl_min_i64(int64_t a, int64_t b) { return b < a ? b : a; }
/* std::iota / std::swap over vector<size_t> storage (rr_cache's open list) */
static inline void cstl_iota_ptr(uint64_t *first, uint64_t *last, uint64_t v)
{
    for (; first != last; ++first, ++v) *first = v;
}
static inline void cstl_swap_u64(uint64_t *a, uint64_t *b) { uint64_t t = *a; *a = *b; *b = t; }

/* ---- the random engine: any outcome in range -------------------------------------------------- */
uint64_t cstl_rand_range(uint64_t a, uint64_t b); /* uniform_int_distribution<size_t>{a,b}(mt): requires a <= b */

#endif
