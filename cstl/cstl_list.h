/* cstl_list.h -- contract of std::list<CSTL_T> with its node pool ("the heap of list nodes of this
 * type").  X-include: define CSTL_NAME, CSTL_T, CSTL_NP before including.
 *   CSTL_NAME        list object: { head (sentinel node = end()), size }
 *   CSTL_NAME_pool   nodes: next/prev/val, alive, sent (is an end() sentinel), owner (sentinel of
 *                    the list the node is linked into)
 * An iterator is a node id; ++, --, deref need only the pool, exactly as with libstdc++ heap nodes.
 */
#define L_ CSTL_NAME
#define LP_ CSTL_CAT(CSTL_NAME, _pool)
#define F_(f) CSTL_CAT(CSTL_NAME, f)

typedef struct
{
    cstl_iter next[CSTL_NP], prev[CSTL_NP];
    CSTL_T    val[CSTL_NP];
    bool      alive[CSTL_NP];
    bool      sent[CSTL_NP];
    cstl_iter owner[CSTL_NP];
} LP_;

typedef struct
{
    cstl_iter head;
    uint64_t  size;
} L_;

enum { F_(_NP) = CSTL_NP };

/* a node id that denotes an iterator that may be used at all (dereferenceable or end()) */
static inline bool F_(_valid)(const LP_ *P, cstl_iter it) { return it < CSTL_NP && P->alive[it]; }
static inline bool F_(_deref_ok)(const LP_ *P, cstl_iter it) { return it < CSTL_NP && P->alive[it] && !P->sent[it]; }

static inline cstl_iter F_(_alloc)(LP_ *P)
{
#if defined(CSTL_CBMC) && !defined(CSTL_DETERMINISTIC)
    cstl_iter n = nondet_u64();
    CSTL_ASSUME(n < CSTL_NP && !P->alive[n]);
    return n;
#elif defined(CSTL_CBMC)
    /* relational (C18) harnesses run the same operations on two copies of one state: allocation must be a
     * function of the state so that both copies stay comparable */
    cstl_iter n = CSTL_NP;
    for (cstl_iter i = 0; i < CSTL_NP; i++)
        if (n == CSTL_NP && !P->alive[i]) n = i;
    CSTL_ASSUME(n < CSTL_NP);
    return n;
#else
    for (cstl_iter n = 0; n < CSTL_NP; n++)
        if (!P->alive[n]) return n;
    cstl_fail("native: list node pool exhausted (model bound)");
    return 0;
#endif
}

/* pool with no live node: the state of the heap before the owning object is constructed */
static inline void F_(_pool_init)(LP_ *P)
{
    for (cstl_iter n = 0; n < CSTL_NP; n++) { P->alive[n] = false; P->sent[n] = false; P->owner[n] = CSTL_NIL; P->next[n] = CSTL_NIL; P->prev[n] = CSTL_NIL; }
}

/* std::list() */
static inline void F_(_ctor)(LP_ *P, L_ *l)
{
    cstl_iter s = F_(_alloc)(P);
    P->alive[s] = true; P->sent[s] = true; P->owner[s] = s; P->next[s] = s; P->prev[s] = s;
    l->head = s; l->size = 0;
}

static inline cstl_iter F_(_link_before)(LP_ *P, L_ *l, cstl_iter pos, cstl_iter n)
{
    cstl_iter p = P->prev[pos];
    P->next[p] = n; P->prev[n] = p; P->next[n] = pos; P->prev[pos] = n;
    P->owner[n] = l->head;
    return n;
}
static inline void F_(_unlink)(LP_ *P, cstl_iter n)
{
    cstl_iter p = P->prev[n], q = P->next[n];
    P->next[p] = q; P->prev[q] = p;
}

static inline cstl_iter F_(_begin)(const LP_ *P, const L_ *l) { return P->next[l->head]; }
static inline cstl_iter F_(_end)(const LP_ *P, const L_ *l) { (void)P; return l->head; }
static inline uint64_t  F_(_size)(const L_ *l) { return l->size; }

/* ++it */
static inline cstl_iter F_(_next)(const LP_ *P, cstl_iter it)
{
    CSTL_ASSERT(F_(_deref_ok)(P, it), "std.list.iterator++: iterator valid and not end() [C08]");
    return P->next[it];
}
/* --it, std::prev(it) */
static inline cstl_iter F_(_prev)(const LP_ *P, cstl_iter it)
{
    CSTL_ASSERT(F_(_valid)(P, it), "std.list.iterator--: iterator valid [C08]");
    CSTL_ASSERT(!P->sent[P->prev[it]], "std.list.iterator--: iterator is not begin() [C08]");
    return P->prev[it];
}
/* *it, it-> */
static inline CSTL_T *F_(_deref)(LP_ *P, cstl_iter it)
{
    CSTL_ASSERT(F_(_deref_ok)(P, it), "std.list.iterator*: iterator valid and not end() [C08]");
    return &P->val[it];
}
/* back() */
static inline CSTL_T *F_(_back)(LP_ *P, L_ *l)
{
    CSTL_ASSERT(l->size > 0, "std.list.back: list not empty [C08]");
    return &P->val[P->prev[l->head]];
}
/* emplace_back(v): returns the new node */
static inline cstl_iter F_(_emplace_back)(LP_ *P, L_ *l, CSTL_T v)
{
    cstl_iter n = F_(_alloc)(P);
    P->alive[n] = true; P->sent[n] = false; P->val[n] = v;
    F_(_link_before)(P, l, l->head, n);
    l->size++;
    return n;
}
/* emplace(pos, v) / insert(pos, v): returns the new node */
static inline cstl_iter F_(_emplace)(LP_ *P, L_ *l, cstl_iter pos, CSTL_T v)
{
    CSTL_ASSERT(F_(_valid)(P, pos) && P->owner[pos] == l->head, "std.list.emplace: pos is a valid iterator of this list [C08]");
    cstl_iter n = F_(_alloc)(P);
    P->alive[n] = true; P->sent[n] = false; P->val[n] = v;
    F_(_link_before)(P, l, pos, n);
    l->size++;
    return n;
}
/* l.splice(pos, l, it): single element, same list */
static inline void F_(_splice)(LP_ *P, L_ *l, cstl_iter pos, cstl_iter it)
{
    CSTL_ASSERT(F_(_valid)(P, pos) && P->owner[pos] == l->head, "std.list.splice: pos is a valid iterator of this list [C08]");
    CSTL_ASSERT(F_(_deref_ok)(P, it) && P->owner[it] == l->head, "std.list.splice: it is a dereferenceable iterator of this list [C08]");
    if (pos == it || pos == P->next[it]) return;
    F_(_unlink)(P, it);
    F_(_link_before)(P, l, pos, it);
}
/* l.splice(pos, l, first, last): a range of the same list; pos must not be in [first,last) */
static inline void F_(_splice_range)(LP_ *P, L_ *l, cstl_iter pos, cstl_iter first, cstl_iter last)
{
    CSTL_ASSERT(F_(_valid)(P, pos) && P->owner[pos] == l->head, "std.list.splice(range): pos is a valid iterator of this list [C08]");
    CSTL_ASSERT(F_(_valid)(P, first) && P->owner[first] == l->head && F_(_valid)(P, last) && P->owner[last] == l->head, "std.list.splice(range): [first,last) in this list [C08]");
    cstl_iter it = first;
    for (uint64_t n = 0; n < CSTL_NP && it != last; n++)
    {
        CSTL_ASSERT(!P->sent[it], "std.list.splice(range): [first,last) is a valid range [C08]");
        CSTL_ASSERT(it != pos, "std.list.splice(range): pos is not in [first,last) [C08]");
        cstl_iter nx = P->next[it];
        F_(_splice)(P, l, pos, it);
        it = nx;
    }
}
/* erase(it): returns the following iterator */
static inline cstl_iter F_(_erase)(LP_ *P, L_ *l, cstl_iter it)
{
    CSTL_ASSERT(F_(_deref_ok)(P, it) && P->owner[it] == l->head, "std.list.erase: iterator valid, dereferenceable, of this list [C08]");
    cstl_iter q = P->next[it];
    F_(_unlink)(P, it);
    P->alive[it] = false; P->owner[it] = CSTL_NIL;
    l->size--;
    return q;
}
/* erase(first,last) */
static inline cstl_iter F_(_erase_range)(LP_ *P, L_ *l, cstl_iter first, cstl_iter last)
{
    CSTL_ASSERT(F_(_valid)(P, first) && P->owner[first] == l->head, "std.list.erase(range): first valid in this list [C08]");
    CSTL_ASSERT(F_(_valid)(P, last) && P->owner[last] == l->head, "std.list.erase(range): last valid in this list [C08]");
    cstl_iter it = first;
    for (uint64_t n = 0; n < CSTL_NP && it != last; n++)
    {
        CSTL_ASSERT(!P->sent[it], "std.list.erase(range): [first,last) is a valid range [C08]");
        it = F_(_erase)(P, l, it);
    }
    return last;
}
/* clear() */
static inline void F_(_clear)(LP_ *P, L_ *l)
{
    for (cstl_iter n = 0; n < CSTL_NP; n++)
        if (P->alive[n] && !P->sent[n] && P->owner[n] == l->head) { P->alive[n] = false; P->owner[n] = CSTL_NIL; }
    P->next[l->head] = l->head; P->prev[l->head] = l->head;
    l->size = 0;
}

/* std::list(n): n value-initialised elements */
static inline void F_(_ctor_n)(LP_ *P, L_ *l, uint64_t n)
{
    F_(_ctor)(P, l);
    CSTL_ASSUME(n + 1 <= CSTL_NP); /* model bound: capacity <= MAXCAP */
    for (uint64_t i = 0; i < CSTL_NP && i < n; i++)
    {
        CSTL_T z = {0};
        F_(_emplace_back)(P, l, z);
    }
}
#ifdef CSTL_LIST_IOTA
/* std::iota(first, last, v) over list iterators */
static inline void F_(_iota)(LP_ *P, cstl_iter first, cstl_iter last, uint64_t v)
{
    for (uint64_t i = 0; i < CSTL_NP && first != last; i++)
    {
        *F_(_deref)(P, first) = v;
        first = F_(_next)(P, first);
        v++;
    }
}
#endif

/* ---- specification helpers (used by representation invariants, not by extracted code) --------- */
/* the list is one ring of exactly l->size element nodes through its sentinel, prev/next consistent,
 * every node live and owned by this list */
static inline bool F_(_wf)(const LP_ *P, const L_ *l)
{
    cstl_iter h = l->head;
    if (!(h < CSTL_NP && P->alive[h] && P->sent[h] && P->owner[h] == h)) return false;
    if (l->size > CSTL_NP - 1) return false;
    cstl_iter cur = h;
    for (uint64_t i = 0; i < CSTL_NP; i++)
    {
        if (i <= l->size)
        {
            cstl_iter nx = P->next[cur];
            if (!(nx < CSTL_NP && P->alive[nx] && P->owner[nx] == h && P->prev[nx] == cur)) return false;
            if (i < l->size) { if (P->sent[nx]) return false; }
            else { if (nx != h) return false; }
            cur = nx;
        }
    }
    return true;
}
/* rank of node it counted from begin() (0-based); l->size for end(); CSTL_NP if not in the list */
static inline uint64_t F_(_rank)(const LP_ *P, const L_ *l, cstl_iter it)
{
    cstl_iter cur = P->next[l->head];
    for (uint64_t i = 0; i < CSTL_NP; i++)
    {
        if (cur == it) return i;
        if (cur == l->head) return CSTL_NP;
        cur = P->next[cur];
    }
    return CSTL_NP;
}
/* node at rank r (end() if r >= size) */
static inline cstl_iter F_(_at_rank)(const LP_ *P, const L_ *l, uint64_t r)
{
    cstl_iter cur = P->next[l->head];
    for (uint64_t i = 0; i < CSTL_NP; i++)
    {
        if (i == r || cur == l->head) return cur;
        cur = P->next[cur];
    }
    return l->head;
}
static inline uint64_t F_(_pool_alive)(const LP_ *P)
{
    uint64_t n = 0;
    for (cstl_iter i = 0; i < CSTL_NP; i++) if (P->alive[i]) n++;
    return n;
}

#undef L_
#undef LP_
#undef F_
#undef CSTL_NAME
#undef CSTL_T
#undef CSTL_NP
#undef CSTL_LIST_IOTA
