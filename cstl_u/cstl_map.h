/* cstl_u/cstl_map.h -- UNBOUNDED contract of std::unordered_map<K,V> / std::map<K,V> (route U).
 * Node arrays are top-level infinite arrays; the ghost array idx[] maps a key to its node (or END): find() is a
 * lookup in idx, and wf states idx and the node arrays consistent (clauses K1/H2 in the container's U spec). */
#define M_ CSTL_NAME
#define MP_ CSTL_CAT(CSTL_NAME, _pool)
#define MN_ CSTL_CAT(CSTL_NAME, _node)
#define F_(f) CSTL_CAT(CSTL_NAME, f)

typedef struct
{
    CSTL_K first;
    CSTL_V second;
} MN_;

typedef struct
{
    MN_       *kv;
    bool      *alive;
    cstl_iter *idx; /* ghost: key -> node */
} MP_;

typedef struct
{
    uint64_t size;
#ifdef CSTL_MAP_HASHED
    uint64_t reserved;
    float    mlf;
#endif
} M_;

#define CSTL_U_END ((cstl_iter)0xFFFFFFFFFFFFFFFFull)
static const cstl_iter F_(_END) = CSTL_U_END;

static MN_       F_(_g_kv)[__CPROVER_constant_infinity_uint];
static bool      F_(_g_alive)[__CPROVER_constant_infinity_uint];
static cstl_iter F_(_g_idx)[__CPROVER_constant_infinity_uint];

static inline void F_(_pool_bind)(MP_ *P) { P->kv = F_(_g_kv); P->alive = F_(_g_alive); P->idx = F_(_g_idx); }
static inline bool F_(_deref_ok)(const MP_ *P, cstl_iter it) { return it != CSTL_U_END && P->alive[it]; }
static inline cstl_iter F_(_end)(const MP_ *P, const M_ *m) { (void)P; (void)m; return CSTL_U_END; }
static inline uint64_t  F_(_size)(const M_ *m) { return m->size; }
static inline cstl_iter F_(_find)(const MP_ *P, const M_ *m, CSTL_K k) { (void)m; return P->idx[k]; }
static inline MN_ *F_(_deref)(MP_ *P, cstl_iter it)
{
    CSTL_ASSERT(F_(_deref_ok)(P, it), "std.map.iterator->: iterator valid and not end() [C08]");
    return &P->kv[it];
}
static inline cstl_emplace_result F_(_emplace)(MP_ *P, M_ *m, CSTL_K k, CSTL_V v)
{
    cstl_emplace_result r;
    cstl_iter           e = P->idx[k];
    if (e != CSTL_U_END) { r.first = e; r.second = false; return r; }
#ifdef CSTL_MAP_HASHED
    CSTL_ASSERT(m->size + 1 <= m->reserved, "std.unordered_map.emplace: no rehash (size()+1 <= reserve(n)), stored iterators stay valid [C01 C08]");
#endif
    cstl_iter n = nondet_u64();
    CSTL_ASSUME(n != CSTL_U_END && !P->alive[n]);
    P->alive[n] = true; P->kv[n].first = k; P->kv[n].second = v; P->idx[k] = n;
    m->size++;
    r.first = n; r.second = true;
    return r;
}
static inline cstl_iter F_(_erase)(MP_ *P, M_ *m, cstl_iter it)
{
    CSTL_ASSERT(F_(_deref_ok)(P, it), "std.map.erase: iterator valid and dereferenceable [C08]");
    P->idx[P->kv[it].first] = CSTL_U_END;
    P->alive[it] = false;
    m->size--;
    return CSTL_U_END;
}
#ifdef CSTL_MAP_HASHED
static inline void F_(_reserve)(MP_ *P, M_ *m, uint64_t n) { (void)P; if (n > m->reserved) m->reserved = n; }
static inline void F_(_max_load_factor)(MP_ *P, M_ *m, float f) { (void)P; m->mlf = f; }
#endif

#undef M_
#undef MP_
#undef MN_
#undef F_
#undef CSTL_NAME
#undef CSTL_K
#undef CSTL_V
#undef CSTL_NP
#undef CSTL_MAP_HASHED
