/* cstl_u/cstl_vec.h -- UNBOUNDED contract of std::vector<CSTL_T> (fixed after construction; symbolic size) */
#define V_ CSTL_NAME
#define F_(f) CSTL_CAT(CSTL_NAME, f)
typedef struct
{
    uint64_t size;
    CSTL_T  *data;
} V_;
static CSTL_T F_(_g_data)[__CPROVER_constant_infinity_uint];
static inline void F_(_bind)(V_ *v) { v->data = F_(_g_data); }
static inline uint64_t F_(_size)(const V_ *v) { return v->size; }
static inline uint64_t F_(_capacity)(const V_ *v)
{
    uint64_t c = nondet_u64();
    CSTL_ASSUME(c >= v->size);
    return c;
}
static inline CSTL_T *F_(_at)(V_ *v, uint64_t i)
{
    CSTL_ASSERT(i < v->size, "std.vector.operator[]: index < size() [C08]");
    return &v->data[i];
}
#undef V_
#undef F_
#undef CSTL_NAME
#undef CSTL_T
#undef CSTL_NP
