/* cstl_u/cstl_mmap.h -- UNBOUNDED contract of std::multimap<K,V> (route U).  begin() returns SOME live node;
 * that it carries a minimal key is a universally quantified fact, made available to a proof at the witness
 * nodes the harness registers in G_MMW[0..G_MMN) before the call (prophecy of the instances the proof needs). */
#define M_ CSTL_NAME
#define MP_ CSTL_CAT(CSTL_NAME, _pool)
#define MN_ CSTL_CAT(CSTL_NAME, _node)
#define F_(f) CSTL_CAT(CSTL_NAME, f)

typedef struct
{
    CSTL_K first;
    CSTL_V second;
} MN_;
typedef struct
{
    MN_  *kv;
    bool *alive;
} MP_;
typedef struct
{
    uint64_t size;
    uint64_t seqctr;
} M_;
#ifndef CSTL_U_END
#define CSTL_U_END ((cstl_iter)0xFFFFFFFFFFFFFFFFull)
#endif
#ifndef CSTL_U_MMW
#define CSTL_U_MMW
cstl_iter G_MMW[4]; /* witness nodes for "begin() is minimal" */
uint64_t  G_MMN;
cstl_iter G_MMP;    /* prophecy: the node begin() returns in this call (chosen first by the harness, which
                       instantiates the invariant at it; begin() constrains it to be live and minimal) */
#endif
static MN_  F_(_g_kv)[__CPROVER_constant_infinity_uint];
static bool F_(_g_alive)[__CPROVER_constant_infinity_uint];
static inline void F_(_pool_bind)(MP_ *P) { P->kv = F_(_g_kv); P->alive = F_(_g_alive); }
static inline bool F_(_deref_ok)(const MP_ *P, cstl_iter it) { return it != CSTL_U_END && P->alive[it]; }
static inline uint64_t F_(_size)(const M_ *m) { return m->size; }
static inline cstl_iter F_(_begin)(const MP_ *P, const M_ *m)
{
    if (m->size == 0) return CSTL_U_END;
    cstl_iter r = G_MMP;
    CSTL_ASSUME(r != CSTL_U_END && P->alive[r]);
    for (uint64_t w = 0; w < 4; w++)
        if (w < G_MMN) CSTL_ASSUME(!(G_MMW[w] != CSTL_U_END && P->alive[G_MMW[w]] && P->kv[G_MMW[w]].first < P->kv[r].first));
    return r;
}
static inline cstl_iter F_(_end)(const MP_ *P, const M_ *m) { (void)P; (void)m; return CSTL_U_END; }
static inline MN_ *F_(_deref)(MP_ *P, cstl_iter it)
{
    CSTL_ASSERT(F_(_deref_ok)(P, it), "std.multimap.iterator->: iterator valid and not end() [C08]");
    return &P->kv[it];
}
static inline cstl_iter F_(_emplace)(MP_ *P, M_ *m, CSTL_K k, CSTL_V v)
{
    cstl_iter n = nondet_u64();
    CSTL_ASSUME(n != CSTL_U_END && !P->alive[n]);
    P->alive[n] = true; P->kv[n].first = k; P->kv[n].second = v;
    m->size++;
    return n;
}
static inline cstl_iter F_(_erase)(MP_ *P, M_ *m, cstl_iter it)
{
    CSTL_ASSERT(F_(_deref_ok)(P, it), "std.multimap.erase: iterator valid and dereferenceable [C08]");
    P->alive[it] = false;
    m->size--;
    return CSTL_U_END;
}
#undef M_
#undef MP_
#undef MN_
#undef F_
#undef CSTL_NAME
#undef CSTL_K
#undef CSTL_V
#undef CSTL_NP
