/* cstl_ud/cstl_list.h -- UNBOUNDED contract of a DYNAMIC std::list<CSTL_T> (route U): as cstl_u/cstl_list.h plus
 * emplace_back and erase(it), which also enter the ghost log (kinds: 0 splice, 1 push_back, 2 erase).
 * The node pool is a set of top-level infinite arrays (uninterpreted arrays for the SMT back end); the pool
 * struct holds pointers to them.  Ghost: pos0[] is the rank of every node of the (single) list of this pool in
 * the pre-state (the sentinel has rank size()), and a log of the splices executed so far; the current rank of
 * a node is the replay of that log (closed-form per splice, no loops).  Loop-carrying operations
 * (constructors, iota, clear, erase of ranges) are not provided: functions that need them stay in route B. */
#define L_ CSTL_NAME
#define LP_ CSTL_CAT(CSTL_NAME, _pool)
#define F_(f) CSTL_CAT(CSTL_NAME, f)
#define CSTL_ULOG 4

typedef struct
{
    cstl_iter *next, *prev;
    CSTL_T    *val;
    bool      *alive, *sent;
    cstl_iter *owner;
    uint64_t  *pos0;                       /* ghost: pre-state ranks                         */
    uint64_t   nlog;                       /* ghost: splice log                              */
    cstl_iter  lx[CSTL_ULOG], lp[CSTL_ULOG];
    bool       lnoop[CSTL_ULOG];
    uint8_t    lkind[CSTL_ULOG];           /* 0 splice(x before p), 1 push_back(x), 2 erase(x) */
} LP_;

typedef struct
{
    cstl_iter head;
    uint64_t  size;
} L_;

static cstl_iter F_(_g_next)[__CPROVER_constant_infinity_uint];
static cstl_iter F_(_g_prev)[__CPROVER_constant_infinity_uint];
static CSTL_T    F_(_g_val)[__CPROVER_constant_infinity_uint];
static bool      F_(_g_alive)[__CPROVER_constant_infinity_uint];
static bool      F_(_g_sent)[__CPROVER_constant_infinity_uint];
static cstl_iter F_(_g_owner)[__CPROVER_constant_infinity_uint];
static uint64_t  F_(_g_pos0)[__CPROVER_constant_infinity_uint];

static inline void F_(_pool_bind)(LP_ *P)
{
    P->next = F_(_g_next); P->prev = F_(_g_prev); P->val = F_(_g_val); P->alive = F_(_g_alive); P->sent = F_(_g_sent);
    P->owner = F_(_g_owner); P->pos0 = F_(_g_pos0); P->nlog = 0;
}

static inline bool F_(_valid)(const LP_ *P, cstl_iter it) { return P->alive[it]; }
static inline bool F_(_deref_ok)(const LP_ *P, cstl_iter it) { return P->alive[it] && !P->sent[it]; }

/* ghost: rank of node i after the first k logged splices */
static inline uint64_t F_(_rank0)(const LP_ *P, cstl_iter i) { return P->pos0[i]; }
#define CSTL_URANK(K, KM1)                                                                                  \
    static inline uint64_t F_(_rank##K)(const LP_ *P, cstl_iter i)                                         \
    {                                                                                                       \
        uint64_t ri = F_(_rank##KM1)(P, i);                                                                 \
        cstl_iter x = P->lx[KM1], p = P->lp[KM1];                                                           \
        if (P->lkind[KM1] == 1) /* push_back(x): x takes the sentinel's old rank, the sentinel moves up */  \
            return i == x ? F_(_rank##KM1)(P, p) : i == p ? ri + 1 : ri;                                    \
        if (P->lkind[KM1] == 2) /* erase(x): everything behind x moves down */                              \
            return ri > F_(_rank##KM1)(P, x) ? ri - 1 : ri;                                                 \
        if (P->lnoop[KM1]) return ri;                                                                       \
        uint64_t  a = F_(_rank##KM1)(P, x), b = F_(_rank##KM1)(P, p);                                       \
        if (a < b) return i == x ? b - 1 : (ri > a && ri < b) ? ri - 1 : ri;                                \
        return i == x ? b : (ri >= b && ri < a) ? ri + 1 : ri;                                              \
    }
CSTL_URANK(1, 0)
CSTL_URANK(2, 1)
CSTL_URANK(3, 2)
CSTL_URANK(4, 3)
#undef CSTL_URANK
static inline uint64_t F_(_rank_now)(const LP_ *P, cstl_iter i)
{
    return P->nlog == 0 ? F_(_rank0)(P, i) : P->nlog == 1 ? F_(_rank1)(P, i) : P->nlog == 2 ? F_(_rank2)(P, i) : P->nlog == 3 ? F_(_rank3)(P, i) : F_(_rank4)(P, i);
}

static inline cstl_iter F_(_begin)(const LP_ *P, const L_ *l) { return P->next[l->head]; }
static inline cstl_iter F_(_end)(const LP_ *P, const L_ *l) { (void)P; return l->head; }
static inline uint64_t  F_(_size)(const L_ *l) { return l->size; }
static inline cstl_iter F_(_next)(const LP_ *P, cstl_iter it)
{
    CSTL_ASSERT(F_(_deref_ok)(P, it), "std.list.iterator++: iterator valid and not end() [C08]");
    return P->next[it];
}
static inline cstl_iter F_(_prev)(const LP_ *P, cstl_iter it)
{
    CSTL_ASSERT(F_(_valid)(P, it), "std.list.iterator--: iterator valid [C08]");
    CSTL_ASSERT(!P->sent[P->prev[it]], "std.list.iterator--: iterator is not begin() [C08]");
    return P->prev[it];
}
static inline CSTL_T *F_(_deref)(LP_ *P, cstl_iter it)
{
    CSTL_ASSERT(F_(_deref_ok)(P, it), "std.list.iterator*: iterator valid and not end() [C08]");
    return &P->val[it];
}
static inline CSTL_T *F_(_back)(LP_ *P, L_ *l)
{
    CSTL_ASSERT(l->size > 0, "std.list.back: list not empty [C08]");
    return &P->val[P->prev[l->head]];
}
static inline void F_(_splice)(LP_ *P, L_ *l, cstl_iter pos, cstl_iter it)
{
    CSTL_ASSERT(F_(_valid)(P, pos) && P->owner[pos] == l->head, "std.list.splice: pos is a valid iterator of this list [C08]");
    CSTL_ASSERT(F_(_deref_ok)(P, it) && P->owner[it] == l->head, "std.list.splice: it is a dereferenceable iterator of this list [C08]");
    CSTL_ASSERT(P->nlog < CSTL_ULOG, "model bound: at most CSTL_ULOG splices per call");
    bool noop = (pos == it || pos == P->next[it]);
    P->lx[P->nlog] = it; P->lp[P->nlog] = pos; P->lnoop[P->nlog] = noop; P->lkind[P->nlog] = 0; P->nlog++;
    if (noop) return;
    cstl_iter a = P->prev[it], b = P->next[it];
    P->next[a] = b; P->prev[b] = a;
    cstl_iter q = P->prev[pos];
    P->next[q] = it; P->prev[it] = q; P->next[it] = pos; P->prev[pos] = it;
}

/* emplace_back(v): a fresh node (any dead node of the infinite pool) linked before the sentinel */
static inline cstl_iter F_(_emplace_back)(LP_ *P, L_ *l, CSTL_T v)
{
    CSTL_ASSERT(P->nlog < CSTL_ULOG, "model bound: at most CSTL_ULOG list updates per call");
    cstl_iter n = nondet_u64();
    CSTL_ASSUME(!P->alive[n] && n != l->head);
    P->alive[n] = true; P->sent[n] = false; P->val[n] = v; P->owner[n] = l->head;
    cstl_iter q = P->prev[l->head];
    P->next[q] = n; P->prev[n] = q; P->next[n] = l->head; P->prev[l->head] = n;
    P->lx[P->nlog] = n; P->lp[P->nlog] = l->head; P->lnoop[P->nlog] = false; P->lkind[P->nlog] = 1; P->nlog++;
    l->size++;
    return n;
}
/* erase(it) */
static inline cstl_iter F_(_erase)(LP_ *P, L_ *l, cstl_iter it)
{
    CSTL_ASSERT(F_(_deref_ok)(P, it) && P->owner[it] == l->head, "std.list.erase: iterator valid, dereferenceable, of this list [C08]");
    CSTL_ASSERT(P->nlog < CSTL_ULOG, "model bound: at most CSTL_ULOG list updates per call");
    cstl_iter a = P->prev[it], b = P->next[it];
    P->next[a] = b; P->prev[b] = a;
    P->lx[P->nlog] = it; P->lp[P->nlog] = l->head; P->lnoop[P->nlog] = false; P->lkind[P->nlog] = 2; P->nlog++;
    P->alive[it] = false; P->owner[it] = CSTL_NIL;
    l->size--;
    return b;
}

/* erase(first,last): node by node; route U runs it under the unwinding bound of the harness (a bounded number of erased
 * nodes per call -- each enters the ghost log --, any list length) */
static inline cstl_iter F_(_erase_range)(LP_ *P, L_ *l, cstl_iter first, cstl_iter last)
{
    CSTL_ASSERT(F_(_valid)(P, first) && P->owner[first] == l->head, "std.list.erase(range): first valid in this list [C08]");
    CSTL_ASSERT(F_(_valid)(P, last) && P->owner[last] == l->head, "std.list.erase(range): last valid in this list [C08]");
    cstl_iter it = first;
    while (it != last)
    {
        CSTL_ASSERT(!P->sent[it], "std.list.erase(range): [first,last) is a valid range [C08]");
        it = F_(_erase)(P, l, it);
    }
    return last;
}

#undef L_
#undef LP_
#undef F_
#undef CSTL_NAME
#undef CSTL_T
#undef CSTL_NP
#undef CSTL_LIST_IOTA
