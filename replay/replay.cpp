// replay.cpp -- replay of a counterexample script against the real library (filled in below)
int replay_main(int, char**) { return 2; }
