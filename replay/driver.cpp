// driver.cpp -- native driver over the REAL libcappuccino headers (/repo/inc) with a virtual clock.
//
//   driver cosim <seed> <histories> <len>   co-simulation: the extracted C (gen/*.c over the native
//                                           cstl models) and the real C++ library are driven side by
//                                           side through random histories; every result must agree.
//                                           Validates extractor + models (trusted base support).
//   driver replay <script.json-ish>         see replay.cpp part below (script of public calls)
//
// steady_clock::now() is interposed at link time: the definition below wins over libstdc++'s.
#include <algorithm>
#include <chrono>
#include <cstdint>
#include <cstdio>
#include <cstdlib>
#include <cstring>
#include <functional>
#include <map>
#include <memory>
#include <optional>
#include <random>
#include <sstream>
#include <string>
#include <tuple>
#include <vector>

#define private public // rr_cache: the engine must be seeded to mirror eviction outcomes
#include "cappuccino/cappuccino.hpp"
#undef private

static int64_t g_now_ns = 1000000000; // virtual clock
namespace std { namespace chrono { inline namespace _V2 {
steady_clock::time_point steady_clock::now() noexcept { return time_point(duration(g_now_ns)); }
}}}

extern "C" {
#include "fifo_cache.h"
#include "lfu_cache.h"
#include "lfuda_cache.h"
#include "lru_cache.h"
#include "mru_cache.h"
#include "rr_cache.h"
#include "tlru_cache.h"
#include "ut_map.h"
#include "ut_set.h"
#include "utlru_cache.h"
int64_t cstl_now(void) { return g_now_ns; }
static std::string g_fail;
void cstl_fail(const char* id) { if (g_fail.empty()) g_fail = id; }
static std::mt19937 g_mirror;
uint64_t cstl_rand_range(uint64_t a, uint64_t b) { return std::uniform_int_distribution<size_t>{a, b}(g_mirror); }
}

namespace cap = cappuccino;
using cappuccino::allow;
using cappuccino::peek;
using K = uint64_t;
using V = uint64_t;
using ms = std::chrono::milliseconds;
using Res = std::vector<int64_t>; // flat encoding of a call's observable result

struct Op
{
    std::string       name;
    K                 k = 0;
    V                 v = 0;
    int               a = 3;      // allow
    int               peek = 0;
    int64_t           ttl = 0;    // ms (tlru insert / update_ttl)
    int64_t           dt = 0;     // advance clock by ns
    std::vector<K>    ks;
    std::vector<V>    vs;
    std::vector<int64_t> ttls;
};

static void enc_opt(Res& r, const std::optional<V>& o) { r.push_back(o.has_value()); r.push_back(o ? (int64_t)*o : 0); }
static void enc_copt(Res& r, cstl_opt o) { r.push_back(o.has); r.push_back(o.has ? (int64_t)o.v : 0); }

// ---------------------------------------------------------------------------------------------
// adapters: Real<C> (C++ library) and Model (extracted C)

template<typename C, typename M> struct Pair
{
    C  real;
    M  model;
    bool has_peek_enum = false;
};

#define COMMON_OBS(PFX)                                                                     \
    if (op.name == "size") { r.push_back((int64_t)c.size()); m.push_back((int64_t)PFX##__size(&mo)); return true; }        \
    if (op.name == "empty") { r.push_back(c.empty()); m.push_back(PFX##__empty(&mo)); return true; }

#define CAP_OBS(PFX)                                                                        \
    if (op.name == "capacity") { r.push_back((int64_t)c.capacity()); m.push_back((int64_t)PFX##__capacity(&mo)); return true; }

#define ERASE_OPS(PFX)                                                                      \
    if (op.name == "erase") { r.push_back(c.erase(op.k)); m.push_back(PFX##__erase(&mo, op.k)); return true; }            \
    if (op.name == "erase_range") {                                                         \
        std::vector<K> ks = op.ks; r.push_back((int64_t)c.erase_range(ks));                 \
        std::vector<K> k2 = op.ks; cstl_range_k rg{k2.size(), k2.data()}; m.push_back((int64_t)PFX##__erase_range(&mo, &rg)); return true; }

#define KV_INSERT_OPS(PFX)                                                                  \
    if (op.name == "insert") { r.push_back(c.insert(op.k, op.v, (allow)op.a)); m.push_back(PFX##__insert(&mo, op.k, op.v, op.a)); return true; } \
    if (op.name == "insert_range") {                                                        \
        std::vector<std::pair<K, V>> kv; for (size_t i = 0; i < op.ks.size(); i++) kv.emplace_back(op.ks[i], op.vs[i]);   \
        r.push_back((int64_t)c.insert_range(kv, (allow)op.a));                              \
        std::vector<cstl_pair> kv2; for (size_t i = 0; i < op.ks.size(); i++) kv2.push_back(cstl_pair{op.ks[i], op.vs[i]}); \
        cstl_range_kv rg{kv2.size(), kv2.data()}; m.push_back((int64_t)PFX##__insert_range(&mo, &rg, op.a)); return true; }

#define FIND_OPS(PFX, REALPEEK, MODELPEEKARG)                                               \
    if (op.name == "find") { enc_opt(r, c.find(op.k REALPEEK)); enc_copt(m, PFX##__find(&mo, op.k MODELPEEKARG)); return true; } \
    if (op.name == "find_range") {                                                          \
        std::vector<K> ks = op.ks; auto out = c.find_range(ks REALPEEK);                    \
        r.push_back((int64_t)out.size()); for (auto& [k, o] : out) { r.push_back((int64_t)k); enc_opt(r, o); }            \
        std::vector<K> k2 = op.ks; cstl_range_k rg{k2.size(), k2.data()};                   \
        std::vector<cstl_pair_kopt> sink(k2.size() + 1);                                    \
        g_sink = sink.data(); g_sink_cap = sink.size();                                     \
        cstl_outvec ov = PFX##__find_range(&mo, &rg MODELPEEKARG);                          \
        m.push_back((int64_t)ov.size); for (size_t i = 0; i < ov.size && i < sink.size(); i++) { m.push_back((int64_t)sink[i].first); enc_copt(m, sink[i].second); } \
        g_sink = nullptr; return true; }                                                    \
    if (op.name == "find_range_fill") {                                                     \
        /* slots whose random value is odd arrive pre-filled (the caller may pass any optional) */                        \
        std::vector<std::pair<K, std::optional<V>>> ko; for (size_t i = 0; i < op.ks.size(); i++) ko.emplace_back(op.ks[i], (op.vs[i] & 1) ? std::optional<V>{op.vs[i]} : std::nullopt); \
        c.find_range_fill(ko REALPEEK); for (auto& [k, o] : ko) { r.push_back((int64_t)k); enc_opt(r, o); }              \
        std::vector<cstl_pair_kopt> k2; for (size_t i = 0; i < op.ks.size(); i++) k2.push_back(cstl_pair_kopt{op.ks[i], cstl_opt{(op.vs[i] & 1) != 0, (op.vs[i] & 1) ? op.vs[i] : 0}}); \
        cstl_range_kopt rg{k2.size(), k2.data()}; PFX##__find_range_fill(&mo, &rg MODELPEEKARG);                          \
        for (auto& e : k2) { m.push_back((int64_t)e.first); enc_copt(m, e.second); } return true; }

// the output vector sink: the model's find_range appends through cstl_outvec; natively the elements
// are collected here (cstl_outvec_ctor leaves sink NULL, so the driver patches it in via a hook)
static cstl_pair_kopt* g_sink = nullptr;
static size_t          g_sink_cap = 0;
static cstl_pair_kb*   g_sink_kb = nullptr;

// To collect elements without touching the generated code, emplace_back writes to o->sink when it is
// set; the ctor clears it.  The driver therefore interposes by wrapping: after the call it cannot
// patch.  Instead the native build of cstl.h is compiled with CSTL_NATIVE_SINK: ctor takes the
// globals below.
extern "C" {
cstl_pair_kopt* cstl_native_sink(void) { return g_sink; }
uint64_t        cstl_native_sink_cap(void) { return g_sink_cap; }
cstl_pair_kb*   cstl_native_sink_kb(void) { return g_sink_kb; }
}

#define PEEKE , (op.peek ? peek::yes : peek::no)
#define PEEKB , (bool)op.peek
#define PEEKM , op.peek
#define NOPEEK

static bool step_lru(cap::lru_cache<K, V>& c, ::lru_cache& mo, const Op& op, Res& r, Res& m)
{
    COMMON_OBS(lru_cache) CAP_OBS(lru_cache) ERASE_OPS(lru_cache) KV_INSERT_OPS(lru_cache) FIND_OPS(lru_cache, PEEKE, PEEKM)
    return false;
}
static bool step_mru(cap::mru_cache<K, V>& c, ::mru_cache& mo, const Op& op, Res& r, Res& m)
{
    COMMON_OBS(mru_cache) CAP_OBS(mru_cache) ERASE_OPS(mru_cache) KV_INSERT_OPS(mru_cache) FIND_OPS(mru_cache, PEEKE, PEEKM)
    return false;
}
static bool step_rr(cap::rr_cache<K, V>& c, ::rr_cache& mo, const Op& op, Res& r, Res& m)
{
    COMMON_OBS(rr_cache) CAP_OBS(rr_cache) ERASE_OPS(rr_cache) KV_INSERT_OPS(rr_cache) FIND_OPS(rr_cache, NOPEEK, NOPEEK)
    return false;
}
static bool step_fifo(cap::fifo_cache<K, V>& c, ::fifo_cache& mo, const Op& op, Res& r, Res& m)
{
    COMMON_OBS(fifo_cache) CAP_OBS(fifo_cache) ERASE_OPS(fifo_cache) KV_INSERT_OPS(fifo_cache) FIND_OPS(fifo_cache, NOPEEK, NOPEEK)
    return false;
}
static bool step_lfu(cap::lfu_cache<K, V>& c, ::lfu_cache& mo, const Op& op, Res& r, Res& m)
{
    COMMON_OBS(lfu_cache) CAP_OBS(lfu_cache) ERASE_OPS(lfu_cache) KV_INSERT_OPS(lfu_cache) FIND_OPS(lfu_cache, PEEKB, PEEKM)
    if (op.name == "find_with_use_count") {
        auto o = c.find_with_use_count(op.k, (bool)op.peek); r.push_back(o.has_value()); r.push_back(o ? (int64_t)o->first : 0); r.push_back(o ? (int64_t)o->second : 0);
        cstl_opt_pair p = lfu_cache__find_with_use_count(&mo, op.k, op.peek); m.push_back(p.has); m.push_back(p.has ? (int64_t)p.v.first : 0); m.push_back(p.has ? (int64_t)p.v.second : 0); return true; }
    return false;
}
static bool step_lfuda(cap::lfuda_cache<K, V>& c, ::lfuda_cache& mo, const Op& op, Res& r, Res& m)
{
    COMMON_OBS(lfuda_cache) CAP_OBS(lfuda_cache) ERASE_OPS(lfuda_cache) KV_INSERT_OPS(lfuda_cache) FIND_OPS(lfuda_cache, PEEKB, PEEKM)
    if (op.name == "find_with_use_count") {
        auto o = c.find_with_use_count(op.k, (bool)op.peek); r.push_back(o.has_value()); r.push_back(o ? (int64_t)o->first : 0); r.push_back(o ? (int64_t)o->second : 0);
        cstl_opt_pair p = lfuda_cache__find_with_use_count(&mo, op.k, op.peek); m.push_back(p.has); m.push_back(p.has ? (int64_t)p.v.first : 0); m.push_back(p.has ? (int64_t)p.v.second : 0); return true; }
    if (op.name == "dynamically_age") { r.push_back((int64_t)c.dynamically_age()); m.push_back((int64_t)lfuda_cache__dynamically_age(&mo)); return true; }
    return false;
}
static bool step_tlru(cap::tlru_cache<K, V>& c, ::tlru_cache& mo, const Op& op, Res& r, Res& m)
{
    COMMON_OBS(tlru_cache) CAP_OBS(tlru_cache) ERASE_OPS(tlru_cache) FIND_OPS(tlru_cache, PEEKE, PEEKM)
    if (op.name == "insert") { r.push_back(c.insert(ms{op.ttl}, op.k, op.v, (allow)op.a)); m.push_back(tlru_cache__insert(&mo, op.ttl, op.k, op.v, op.a)); return true; }
    if (op.name == "insert_range") {
        std::vector<std::tuple<ms, K, V>> kv; for (size_t i = 0; i < op.ks.size(); i++) kv.emplace_back(ms{op.ttls[i]}, op.ks[i], op.vs[i]);
        r.push_back((int64_t)c.insert_range(kv, (allow)op.a));
        std::vector<cstl_tuple3> kv2; for (size_t i = 0; i < op.ks.size(); i++) kv2.push_back(cstl_tuple3{op.ttls[i], op.ks[i], op.vs[i]});
        cstl_range_t3 rg{kv2.size(), kv2.data()}; m.push_back((int64_t)tlru_cache__insert_range(&mo, &rg, op.a)); return true; }
    if (op.name == "clean_expired_values") { r.push_back((int64_t)c.clean_expired_values()); m.push_back((int64_t)tlru_cache__clean_expired_values(&mo)); return true; }
    return false;
}
static bool step_utlru(cap::utlru_cache<K, V>& c, ::utlru_cache& mo, const Op& op, Res& r, Res& m)
{
    COMMON_OBS(utlru_cache) CAP_OBS(utlru_cache) ERASE_OPS(utlru_cache) KV_INSERT_OPS(utlru_cache) FIND_OPS(utlru_cache, PEEKE, PEEKM)
    if (op.name == "clean_expired_values") { r.push_back((int64_t)c.clean_expired_values()); m.push_back((int64_t)utlru_cache__clean_expired_values(&mo)); return true; }
    if (op.name == "update_ttl") { c.update_ttl(ms{op.ttl}); utlru_cache__update_ttl(&mo, op.ttl); return true; }
    if (op.name == "clear") { c.clear(); utlru_cache__clear(&mo); return true; }
    return false;
}
static bool step_utmap(cap::ut_map<K, V>& c, ::ut_map& mo, const Op& op, Res& r, Res& m)
{
    COMMON_OBS(ut_map) ERASE_OPS(ut_map) KV_INSERT_OPS(ut_map) FIND_OPS(ut_map, NOPEEK, NOPEEK)
    if (op.name == "clean_expired_values") { r.push_back((int64_t)c.clean_expired_values()); m.push_back((int64_t)ut_map__clean_expired_values(&mo)); return true; }
    if (op.name == "clear") { c.clear(); ut_map__clear(&mo); return true; }
    return false;
}
static bool step_utset(cap::ut_set<K>& c, ::ut_set& mo, const Op& op, Res& r, Res& m)
{
    COMMON_OBS(ut_set) ERASE_OPS(ut_set)
    if (op.name == "insert") { r.push_back(c.insert(op.k, (allow)op.a)); m.push_back(ut_set__insert(&mo, op.k, op.a)); return true; }
    if (op.name == "insert_range") {
        std::vector<K> ks = op.ks; r.push_back((int64_t)c.insert_range(ks, (allow)op.a));
        std::vector<K> k2 = op.ks; cstl_range_k rg{k2.size(), k2.data()}; m.push_back((int64_t)ut_set__insert_range(&mo, &rg, op.a)); return true; }
    if (op.name == "find") { r.push_back(c.find(op.k)); m.push_back(ut_set__find(&mo, op.k)); return true; }
    if (op.name == "find_range") {
        std::vector<K> ks = op.ks; auto out = c.find_range(ks); r.push_back((int64_t)out.size()); for (auto& [k, b] : out) { r.push_back((int64_t)k); r.push_back(b); }
        std::vector<K> k2 = op.ks; cstl_range_k rg{k2.size(), k2.data()}; std::vector<cstl_pair_kb> sink(k2.size() + 1); g_sink_kb = sink.data(); g_sink_cap = sink.size();
        cstl_outvec_kb ov = ut_set__find_range(&mo, &rg); m.push_back((int64_t)ov.size); for (size_t i = 0; i < ov.size && i < sink.size(); i++) { m.push_back((int64_t)sink[i].first); m.push_back(sink[i].second); }
        g_sink_kb = nullptr; return true; }
    if (op.name == "find_range_fill") {
        std::vector<std::pair<K, bool>> kb; for (auto k : op.ks) kb.emplace_back(k, false); c.find_range_fill(kb); for (auto& [k, b] : kb) { r.push_back((int64_t)k); r.push_back(b); }
        std::vector<cstl_pair_kb> k2; for (auto k : op.ks) k2.push_back(cstl_pair_kb{k, false}); cstl_range_kb rg{k2.size(), k2.data()}; ut_set__find_range_fill(&mo, &rg);
        for (auto& e : k2) { m.push_back((int64_t)e.first); m.push_back(e.second); } return true; }
    if (op.name == "clean_expired_values") { r.push_back((int64_t)c.clean_expired_values()); m.push_back((int64_t)ut_set__clean_expired_values(&mo)); return true; }
    return false;
}

// ---------------------------------------------------------------------------------------------
// random histories

struct Gen
{
    std::mt19937_64 rng;
    explicit Gen(uint64_t s) : rng(s) {}
    uint64_t u(uint64_t n) { return rng() % n; }
    Op make(const std::vector<std::string>& names, uint64_t nkeys)
    {
        Op op;
        op.name = names[u(names.size())];
        op.k = u(nkeys);
        op.v = u(1000);
        op.a = 1 + (int)u(3);
        op.peek = (int)u(2);
        op.ttl = (int64_t)u(4) * 10; // 0,10,20,30 ms
        size_t n = u(5);
        for (size_t i = 0; i < n; i++) { op.ks.push_back(u(nkeys)); op.vs.push_back(u(1000)); op.ttls.push_back((int64_t)u(4) * 10); }
        return op;
    }
};

static std::string show(const Op& op)
{
    std::ostringstream o;
    o << op.name << "(k=" << op.k << ",v=" << op.v << ",a=" << op.a << ",peek=" << op.peek << ",ttl=" << op.ttl << ",ks=[";
    for (size_t i = 0; i < op.ks.size(); i++) o << (i ? "," : "") << op.ks[i] << ":" << (i < op.vs.size() ? op.vs[i] : 0);
    o << "]) @" << g_now_ns;
    return o.str();
}

static long g_steps = 0;
static bool g_ub = false;
static bool g_trace = false; // trace mode: print the real library's results, ignore the model
static int  g_only_history = -1;

template<typename MakeReal, typename MakeModel, typename Step>
static bool run_histories(const char* cname, uint64_t seed, int histories, int len, const std::vector<std::string>& names, MakeReal mkreal, MakeModel mkmodel, Step step)
{
    for (int h = 0; h < histories; h++) {
        if (g_only_history >= 0 && h != g_only_history) continue;
        Gen g(seed * 1000003 + h);
        size_t cap = 1 + g.u(MAXCAP);
        int64_t ttl = (int64_t)g.u(4) * 10;
        uint64_t nkeys = cap + 1 + g.u(3);
        if (!strncmp(cname, "ut_", 3) && nkeys > MAXCAP) nkeys = MAXCAP; // no capacity: the model bounds the number of stored entries
        g_now_ns = 1000000000;
        auto real = mkreal(cap, ttl);
        auto model = mkmodel(cap, ttl);
        std::vector<std::string> log;
        for (int i = 0; i < len; i++) {
            if (g.u(3) == 0) g_now_ns += (int64_t)g.u(4) * 5000000; // 0,5,10,15 ms
            Op op = g.make(names, nkeys);
            Res r, m;
            g_fail.clear();
            log.push_back(show(op));
            if (!step(*real, *model, op, r, m)) { fprintf(stderr, "cosim: unknown op %s for %s\n", op.name.c_str(), cname); return false; }
            g_steps++;
            if (g_trace) {
                // universal oracles that need no reference model: a hit returns the value last written under that key
                printf("H%d S%d cap=%zu ttl=%ld %s ->", h, i, cap, (long)ttl, log.back().c_str());
                for (auto x : r) printf(" %ld", (long)x);
                printf("\n");
                continue;
            }
            if (!g_fail.empty()) {
                // the history drives the library into undefined behaviour (a std:: precondition is violated in
                // the extracted code, which mirrors the real code): not an extraction defect; stop this container
                fprintf(stderr, "COSIM-UB %s cap=%zu ttl=%ld history %d step %d: %s\n", cname, cap, (long)ttl, h, i, g_fail.c_str());
                for (auto& l : log) fprintf(stderr, "   %s\n", l.c_str());
                g_ub = true;
                return true;
            }
            if (r != m) {
                fprintf(stderr, "COSIM-MISMATCH %s cap=%zu ttl=%ld history %d step %d\n", cname, cap, (long)ttl, h, i);
                for (auto& l : log) fprintf(stderr, "   %s\n", l.c_str());
                fprintf(stderr, "   real : "); for (auto x : r) fprintf(stderr, "%ld ", (long)x); fprintf(stderr, "\n   model: "); for (auto x : m) fprintf(stderr, "%ld ", (long)x); fprintf(stderr, "\n");
                return false;
            }
        }
    }
    return true;
}

static int cosim(uint64_t seed, int histories, int len, const char* only)
{
    bool ok = true;
    std::vector<std::string> base = {"insert", "insert", "insert_range", "erase", "erase_range", "find", "find", "find_range", "find_range_fill", "size", "empty"};
    auto with = [&](std::initializer_list<const char*> extra) { auto v = base; for (auto e : extra) v.push_back(e); return v; };
    auto want = [&](const char* n) { return !only || !strcmp(only, n); };
#define SIMPLE(NAME, CPP, STEP)                                                                   \
    if (want(#NAME)) ok = ok && run_histories(#NAME, seed, histories, len, with({"capacity"}),           \
        [](size_t cap, int64_t) { return std::make_unique<cap::CPP<K, V>>(cap); },                            \
        [](size_t cap, int64_t) { auto m = std::make_unique<::NAME>(); NAME##__ctor(m.get(), cap, 1.0f); return m; }, STEP);
    SIMPLE(lru_cache, lru_cache, step_lru)
    SIMPLE(mru_cache, mru_cache, step_mru)
    SIMPLE(fifo_cache, fifo_cache, step_fifo)
    if (want("lfu_cache")) ok = ok && run_histories("lfu_cache", seed, histories, len, with({"capacity", "find_with_use_count"}),
        [](size_t cap, int64_t) { return std::make_unique<cap::lfu_cache<K, V>>(cap); },
        [](size_t cap, int64_t) { auto m = std::make_unique<::lfu_cache>(); lfu_cache__ctor(m.get(), cap, 1.0f); return m; }, step_lfu);
    if (want("lfuda_cache")) ok = ok && run_histories("lfuda_cache", seed, histories, len, with({"capacity", "find_with_use_count", "dynamically_age"}),
        [](size_t cap, int64_t ttl) { return std::make_unique<cap::lfuda_cache<K, V>>(cap, ms{ttl + 1}, 0.5f); },
        [](size_t cap, int64_t ttl) { auto m = std::make_unique<::lfuda_cache>(); lfuda_cache__ctor(m.get(), cap, ttl + 1, 0.5f, 1.0f); return m; }, step_lfuda);
    if (want("rr_cache")) ok = ok && run_histories("rr_cache", seed, histories, len, with({"capacity"}),
        [seed](size_t cap, int64_t) { auto c = std::make_unique<cap::rr_cache<K, V>>(cap); c->m_mt.seed(seed); g_mirror.seed(seed); return c; },
        [](size_t cap, int64_t) { auto m = std::make_unique<::rr_cache>(); rr_cache__ctor(m.get(), cap, 1.0f); return m; }, step_rr);
    if (want("tlru_cache")) ok = ok && run_histories("tlru_cache", seed, histories, len, with({"capacity", "clean_expired_values"}),
        [](size_t cap, int64_t) { return std::make_unique<cap::tlru_cache<K, V>>(cap); },
        [](size_t cap, int64_t) { auto m = std::make_unique<::tlru_cache>(); tlru_cache__ctor(m.get(), cap, 1.0f); return m; }, step_tlru);
    if (want("utlru_cache")) ok = ok && run_histories("utlru_cache", seed, histories, len, with({"capacity", "clean_expired_values", "update_ttl", "clear"}),
        [](size_t cap, int64_t ttl) { return std::make_unique<cap::utlru_cache<K, V>>(ms{ttl}, cap); },
        [](size_t cap, int64_t ttl) { auto m = std::make_unique<::utlru_cache>(); utlru_cache__ctor(m.get(), ttl, cap, 1.0f); return m; }, step_utlru);
    if (want("ut_map")) ok = ok && run_histories("ut_map", seed, histories, len, with({"clean_expired_values", "clear"}),
        [](size_t, int64_t ttl) { return std::make_unique<cap::ut_map<K, V>>(ms{ttl}); },
        [](size_t, int64_t ttl) { auto m = std::make_unique<::ut_map>(); ut_map__ctor(m.get(), ttl); return m; }, step_utmap);
    if (want("ut_set")) ok = ok && run_histories("ut_set", seed, histories, len, with({"clean_expired_values"}),
        [](size_t, int64_t ttl) { return std::make_unique<cap::ut_set<K>>(ms{ttl}); },
        [](size_t, int64_t ttl) { auto m = std::make_unique<::ut_set>(); ut_set__ctor(m.get(), ttl); return m; }, step_utset);
    printf("cosim: %s, %ld calls compared (real library vs extracted C over native models)\n", ok ? "AGREE" : "MISMATCH", g_steps);
    return !ok ? 2 : g_ub ? 3 : 0;
}

int replay_main(int argc, char** argv);

int main(int argc, char** argv)
{
    if (argc >= 5 && !strcmp(argv[1], "cosim"))
        return cosim(strtoull(argv[2], 0, 10), atoi(argv[3]), atoi(argv[4]), argc > 5 ? argv[5] : nullptr);
    if (argc >= 6 && !strcmp(argv[1], "trace")) {
        // driver trace <container> <seed> <histories> <len> [history]: results of the real library only
        g_trace = true;
        setvbuf(stdout, nullptr, _IOLBF, 0); // a crash of the real library must not lose the calls already executed
        if (argc > 6) g_only_history = atoi(argv[6]);
        cosim(strtoull(argv[3], 0, 10), atoi(argv[4]), atoi(argv[5]), argv[2]);
        return 0;
    }
    if (argc >= 3 && !strcmp(argv[1], "replay"))
        return replay_main(argc, argv);
    fprintf(stderr, "usage: driver cosim <seed> <histories> <len> [container] | driver replay <script>\n");
    return 2;
}
