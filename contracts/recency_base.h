/* recency_base.h -- X-include: representation invariant and abstract view shared by the slot/recency
 * family (lru_cache, mru_cache, tlru_cache, utlru_cache): a vector of slots, a hash index key -> slot,
 * a pre-allocated list holding a permutation of the slot numbers whose first m_used_size nodes are
 * the used ones.  Parameters (macros): RB (prefix), RB_C (struct), RBL / RBH (list / hash model
 * names), RB_E (element struct), RB_LIST, RB_END, RB_POS (member names), RB_MRU (order policy). */
#define RBF(x) CSTL_CAT(RB, CSTL_CAT(_, x))
#define RBLF(x) CSTL_CAT(RBL, x)
#define RBHF(x) CSTL_CAT(RBH, x)
#define RBL_pool CSTL_CAT(RBL, _pool)
#define RBH_pool CSTL_CAT(RBH, _pool)
#ifdef RB_FRAME_EXTRA
#define RB_FRAME_EXTRA_ &&RB_FRAME_EXTRA(o, n)
#else
#define RB_FRAME_EXTRA_
#endif

/* ---- representation invariant ---------------------------------------------------------------- */
static inline bool RBF(wf_base)(const RB_C *c)
{
    const RBL_pool *LP = &c->P_L0;
    const RBH_pool  *HP = &c->P_H;
    uint64_t cap = c->m_elements.size, used = c->m_used_size;
    if (!(cap >= 1 && cap <= MAXCAP && used <= cap)) return false;
    /* the recency list: one ring of exactly cap nodes; no other live list node in the pool */
    if (!(c->RB_LIST.size == cap && RBLF(_wf)(LP, &c->RB_LIST))) return false;
#ifdef RB_POOL_EXTRA
    if (RBLF(_pool_alive)(LP) != cap + 1 + RB_POOL_EXTRA(c)) return false;
#else
    if (RBLF(_pool_alive)(LP) != cap + 1) return false;
#endif
    /* index: size, reserve, live entries */
    if (!(c->m_keyed_elements.size == used && c->m_keyed_elements.reserved >= cap)) return false;
    if (RBHF(_pool_alive)(HP) != used) return false;
    /* walk the list: slot numbers are a permutation; first `used` nodes are the used ones */
    bool      seen[MAXCAP] = {0};
    cstl_iter it = LP->next[c->RB_LIST.head];
    for (uint64_t i = 0; i < MAXCAP; i++)
    {
        if (i < cap)
        {
            uint64_t s = LP->val[it];
            if (!(s < cap) || seen[s]) return false;
            seen[s] = true;
            if (i == used && c->RB_END != it) return false;
            if (i < used)
            {
                const RB_E *e = &c->m_elements.data[s];
                cstl_iter kp = e->m_keyed_position;
                if (e->RB_POS != it) return false;
                if (!(kp < RBHF(_NP) && HP->alive[kp] && HP->kv[kp].second == s)) return false;
            }
            it = LP->next[it];
        }
    }
    if (used == cap && c->RB_END != c->RB_LIST.head) return false;
    /* live index keys pairwise distinct */
    for (cstl_iter a = 0; a < RBHF(_NP); a++)
        for (cstl_iter b = a + 1; b < RBHF(_NP); b++)
            if (HP->alive[a] && HP->alive[b] && HP->kv[a].first == HP->kv[b].first) return false;
    return true;
}

/* ---- abstract view --------------------------------------------------------------------------- */
static inline bool RBF(has)(const RB_C *c, uint64_t k) { return RBHF(_find)(&c->P_H, &c->m_keyed_elements, k) != RBHF(_END); }
static inline uint64_t RBF(slot)(const RB_C *c, uint64_t k)
{
    cstl_iter n = RBHF(_find)(&c->P_H, &c->m_keyed_elements, k);
    return n == RBHF(_END) ? MAXCAP : c->P_H.kv[n].second;
}
static inline uint64_t RBF(val)(const RB_C *c, uint64_t k)
{
    uint64_t s = RBF(slot)(c, k);
    return s < MAXCAP ? c->m_elements.data[s].m_value : 0;
}
/* recency rank: 0 = most recently used; NONE if absent */
static inline uint64_t RBF(ord)(const RB_C *c, uint64_t k)
{
    uint64_t s = RBF(slot)(c, k);
    return s < MAXCAP ? RBLF(_rank)(&c->P_L0, &c->RB_LIST, c->m_elements.data[s].RB_POS) : SPEC_NONE;
}
static inline uint64_t RBF(size)(const RB_C *c) { return c->m_used_size; }
static inline uint64_t RBF(cap)(const RB_C *c) { return c->m_elements.size; }
static inline bool RBF(held)(const RB_C *c) { return c->m_lock.m_lock.held; }
static inline uint64_t RBF(acq)(const RB_C *c) { return c->m_lock.m_lock.acq; }
/* slot idx currently holds an entry (is referenced by one of the first `used` list nodes) */
static inline bool RBF(slot_used)(const RB_C *c, uint64_t idx)
{
    if (!(idx < c->m_elements.size)) return false;
    return RBLF(_rank)(&c->P_L0, &c->RB_LIST, c->m_elements.data[idx].RB_POS) < c->m_used_size
           && c->P_L0.val[c->m_elements.data[idx].RB_POS < RBLF(_NP) ? c->m_elements.data[idx].RB_POS : 0] == idx;
}
static inline uint64_t RBF(key_of_slot)(const RB_C *c, uint64_t idx)
{
    cstl_iter kp = c->m_elements.data[idx < MAXCAP ? idx : 0].m_keyed_position;
    return c->P_H.kv[kp < RBHF(_NP) ? kp : 0].first;
}
/* key at recency rank r (undefined if r >= size) */
static inline uint64_t RBF(key_at)(const RB_C *c, uint64_t r)
{
    cstl_iter it = RBLF(_at_rank)(&c->P_L0, &c->RB_LIST, r);
    uint64_t  s  = c->P_L0.val[it < RBLF(_NP) ? it : 0];
    return RBF(key_of_slot)(c, s);
}
static inline bool RBF(entry_live)(const RB_C *c, cstl_iter kp) { return kp < RBHF(_NP) && c->P_H.alive[kp]; }
static inline uint64_t RBF(entry_key)(const RB_C *c, cstl_iter kp) { return c->P_H.kv[kp < RBHF(_NP) ? kp : 0].first; }

/* ---- postcondition vocabulary (o = state before the call, by value; n = state after) --------- */
/* configuration and lock state are outside the effect of every private helper */
static inline bool RBF(frame)(RB_C o, const RB_C *n)
{
    return o.m_elements.size == n->m_elements.size && n->m_keyed_elements.reserved >= n->m_elements.size
           && o.m_lock.m_lock.held == n->m_lock.m_lock.held && o.m_lock.m_lock.acq == n->m_lock.m_lock.acq RB_FRAME_EXTRA_;
}
/* a public method: one critical section, configuration unchanged */
static inline bool RBF(frame_pub)(RB_C o, const RB_C *n)
{
    return o.m_elements.size == n->m_elements.size && n->m_keyed_elements.reserved >= n->m_elements.size
           && !n->m_lock.m_lock.held && n->m_lock.m_lock.acq - 1 == o.m_lock.m_lock.acq && n->m_lock.m_lock.acq != 0 RB_FRAME_EXTRA_;
}
/* entry under key g untouched: presence and value */
static inline bool RBF(kept)(RB_C o, const RB_C *n, uint64_t g)
{
    return RBF(has)(n, g) == RBF(has)(&o, g) && (!RBF(has)(&o, g) || RBF(val)(n, g) == RBF(val)(&o, g));
}
static inline bool RBF(ord_same)(RB_C o, const RB_C *n, uint64_t g) { return RBF(ord)(n, g) == RBF(ord)(&o, g); }
#ifndef RB_MRU
/* recency order after a USE of resident key k: k first, entries that were ahead of k shift by one */
static inline bool RBF(ord_use)(RB_C o, const RB_C *n, uint64_t k, uint64_t g)
{
    uint64_t og = RBF(ord)(&o, g), ok = RBF(ord)(&o, k);
    return RBF(ord)(n, g) == (g == k ? 0 : og == SPEC_NONE ? SPEC_NONE : og + (og < ok ? 1 : 0));
}
#else
/* mru: rank 0 is the OLDEST use; a USE of resident key k makes it the newest (rank size-1) */
static inline bool RBF(ord_use)(RB_C o, const RB_C *n, uint64_t k, uint64_t g)
{
    uint64_t og = RBF(ord)(&o, g), ok = RBF(ord)(&o, k);
    return RBF(ord)(n, g) == (g == k ? o.m_used_size - 1 : og == SPEC_NONE ? SPEC_NONE : og - (og > ok ? 1 : 0));
}
#endif
/* recency order after REMOVAL of resident key k */
static inline bool RBF(ord_del)(RB_C o, const RB_C *n, uint64_t k, uint64_t g)
{
    uint64_t og = RBF(ord)(&o, g), ok = RBF(ord)(&o, k);
    return RBF(ord)(n, g) == (g == k || og == SPEC_NONE ? SPEC_NONE : og - (og > ok ? 1 : 0));
}
/* the eviction victim of an insert of a new key: the least recently used entry, iff the cache is full */
static inline bool RBF(full)(const RB_C *c) { return c->m_used_size >= c->m_elements.size; }
static inline uint64_t RBF(victim)(const RB_C *c) { return RBF(key_at)(c, c->m_used_size - 1); }
/* state after INSERT of new key k with value v, observed at g */
static inline bool RBF(ins_has)(RB_C o, const RB_C *n, uint64_t k, uint64_t g)
{
    bool evicted = RBF(full)(&o) && g == RBF(victim)(&o);
    return RBF(has)(n, g) == (g == k ? true : evicted ? false : RBF(has)(&o, g));
}
static inline bool RBF(ins_val)(RB_C o, const RB_C *n, uint64_t k, uint64_t v, uint64_t g)
{
    return !RBF(has)(n, g) || RBF(val)(n, g) == (g == k ? v : RBF(val)(&o, g));
}
static inline bool RBF(ins_ord)(RB_C o, const RB_C *n, uint64_t k, uint64_t g)
{
    uint64_t og = RBF(ord)(&o, g);
    bool     evicted = RBF(full)(&o) && g == RBF(victim)(&o);
#ifndef RB_MRU
    return RBF(ord)(n, g) == (g == k ? 0 : (og == SPEC_NONE || evicted) ? SPEC_NONE : og + 1);
#else
    /* mru: the victim is the NEWEST entry (rank cap-1); the new key takes the newest rank; nothing else moves */
    return RBF(ord)(n, g) == (g == k ? (RBF(full)(&o) ? o.m_used_size - 1 : o.m_used_size) : (og == SPEC_NONE || evicted) ? SPEC_NONE : og);
#endif
}
static inline bool RBF(ins_size)(RB_C o, const RB_C *n) { return RBF(size)(n) == (RBF(full)(&o) ? RBF(cap)(&o) : RBF(size)(&o) + 1); }
/* the whole view unchanged at g */
static inline bool RBF(same)(RB_C o, const RB_C *n, uint64_t g) { return RBF(kept)(o, n, g) && RBF(ord_same)(o, n, g); }
static inline bool RBF(size_same)(RB_C o, const RB_C *n) { return RBF(size)(n) == RBF(size)(&o); }
/* by-value accessors for the pre-state */
static inline bool RBF(has_o)(RB_C o, uint64_t k) { return RBF(has)(&o, k); }
static inline uint64_t RBF(val_o)(RB_C o, uint64_t k) { return RBF(val)(&o, k); }
static inline uint64_t RBF(size_o)(RB_C o) { return RBF(size)(&o); }
static inline uint64_t RBF(cap_o)(RB_C o) { return RBF(cap)(&o); }
static inline uint64_t RBF(acq_o)(RB_C o) { return o.m_lock.m_lock.acq; }
static inline uint64_t RBF(ord_o)(RB_C o, uint64_t k) { return RBF(ord)(&o, k); }
static inline uint64_t RBF(key_of_slot_o)(RB_C o, uint64_t idx) { return RBF(key_of_slot)(&o, idx); }
static inline uint64_t RBF(entry_key_o)(RB_C o, cstl_iter kp) { return RBF(entry_key)(&o, kp); }
static inline uint64_t RBF(victim_o)(RB_C o) { return RBF(victim)(&o); }

/* ---- symmetry reduction: canonical numbering of node ids (quick tier only) ------------------------
 * list sentinel is node 0, the node at rank i is node i+1, the index entry of the entry at rank i is
 * hash node i.  Every wf state is isomorphic to exactly such a state under a renaming of node ids. */
static inline bool RBF(canon)(const RB_C *c)
{
    if (c->RB_LIST.head != 0) return false;
    cstl_iter it = c->P_L0.next[0];
    for (uint64_t i = 0; i < MAXCAP; i++)
        if (i < c->m_elements.size)
        {
            if (it != i + 1) return false;
            uint64_t s = c->P_L0.val[it];
            if (i < c->m_used_size && c->m_elements.data[s < MAXCAP ? s : 0].m_keyed_position != i) return false;
            it = c->P_L0.next[it];
        }
    return true;
}

#undef RBF
#undef RBLF
#undef RBHF
#undef RBL_pool
#undef RBH_pool
#undef RB_FRAME_EXTRA_
