/* fifo_cache_spec.h -- representation invariant and abstract view of fifo_cache: a pre-allocated list of
 * {optional<index iterator>, value} nodes whose first (capacity - used) nodes are free (nullopt) and whose
 * remaining nodes are the entries in insertion order (oldest first), and a hash index key -> list node. */
#ifndef FIFO_CACHE_SPEC_H
#define FIFO_CACHE_SPEC_H
#include "fifo_cache.h"
#include "spec_common.h"

static inline bool fifo_wf(const fifo_cache *c)
{
    const fifo_cache__L0_pool *LP = &c->P_L0;
    const fifo_cache__H_pool  *HP = &c->P_H;
    uint64_t cap = c->m_fifo_list.size, used = c->m_used_size;
    if (!(cap >= 1 && cap <= MAXCAP && used <= cap)) return false;
    if (!(fifo_cache__L0_wf(LP, &c->m_fifo_list) && fifo_cache__L0_pool_alive(LP) == cap + 1)) return false;
    if (!(c->m_keyed_elements.size == used && c->m_keyed_elements.reserved >= cap && fifo_cache__H_pool_alive(HP) == used)) return false;
    cstl_iter it = LP->next[c->m_fifo_list.head];
    for (uint64_t i = 0; i < MAXCAP; i++)
        if (i < cap)
        {
            const fifo_cache__element *e = &LP->val[it];
            if (i < cap - used)
            {
                if (e->m_keyed_position.has) return false; /* free node */
            }
            else
            {
                cstl_iter kp = e->m_keyed_position.v;
                if (!e->m_keyed_position.has) return false;
                if (!(kp < fifo_cache__H_NP && HP->alive[kp] && HP->kv[kp].second == it)) return false; /* back-pointer */
            }
            it = LP->next[it];
        }
    for (cstl_iter a = 0; a < fifo_cache__H_NP; a++)
        for (cstl_iter b = a + 1; b < fifo_cache__H_NP; b++)
            if (HP->alive[a] && HP->alive[b] && HP->kv[a].first == HP->kv[b].first) return false;
    return true;
}
/* symmetry reduction: sentinel is node 0, node at rank i is node i+1, the index entry of the used node at rank i is hash node i */
static inline bool fifo_canon(const fifo_cache *c)
{
    if (c->m_fifo_list.head != 0) return false;
    cstl_iter it = c->P_L0.next[0];
    for (uint64_t i = 0; i < MAXCAP; i++)
        if (i < c->m_fifo_list.size)
        {
            if (it != i + 1) return false;
            if (i >= c->m_fifo_list.size - c->m_used_size && c->P_L0.val[it].m_keyed_position.v != i) return false;
            it = c->P_L0.next[it];
        }
    return true;
}
/* ---- view ---- */
static inline cstl_iter fifo_node(const fifo_cache *c, uint64_t k)
{
    cstl_iter n = fifo_cache__H_find(&c->P_H, &c->m_keyed_elements, k);
    return n == fifo_cache__H_END ? fifo_cache__L0_NP : c->P_H.kv[n].second;
}
static inline bool fifo_has(const fifo_cache *c, uint64_t k) { return fifo_cache__H_find(&c->P_H, &c->m_keyed_elements, k) != fifo_cache__H_END; }
static inline uint64_t fifo_val(const fifo_cache *c, uint64_t k)
{
    cstl_iter n = fifo_node(c, k);
    return n < fifo_cache__L0_NP ? c->P_L0.val[n].m_value : 0;
}
/* insertion rank among the entries: 0 = earliest inserted (next victim); SPEC_NONE if absent */
static inline uint64_t fifo_ord(const fifo_cache *c, uint64_t k)
{
    cstl_iter n = fifo_node(c, k);
    if (!(n < fifo_cache__L0_NP)) return SPEC_NONE;
    return fifo_cache__L0_rank(&c->P_L0, &c->m_fifo_list, n) - (c->m_fifo_list.size - c->m_used_size);
}
static inline uint64_t fifo_size(const fifo_cache *c) { return c->m_used_size; }
static inline uint64_t fifo_cap(const fifo_cache *c) { return c->m_fifo_list.size; }
static inline bool fifo_held(const fifo_cache *c) { return c->m_lock.m_lock.held; }
static inline bool fifo_full(const fifo_cache *c) { return c->m_used_size >= c->m_fifo_list.size; }
static inline bool fifo_entry_live(const fifo_cache *c, cstl_iter kp) { return kp < fifo_cache__H_NP && c->P_H.alive[kp]; }
static inline uint64_t fifo_entry_key(const fifo_cache *c, cstl_iter kp) { return c->P_H.kv[kp < fifo_cache__H_NP ? kp : 0].first; }
/* list node n holds an entry */
static inline bool fifo_node_used(const fifo_cache *c, cstl_iter n)
{
    return n < fifo_cache__L0_NP && c->P_L0.alive[n] && !c->P_L0.sent[n] && c->P_L0.val[n].m_keyed_position.has;
}
static inline uint64_t fifo_key_of_node(const fifo_cache *c, cstl_iter n)
{
    cstl_iter kp = c->P_L0.val[n < fifo_cache__L0_NP ? n : 0].m_keyed_position.v;
    return c->P_H.kv[kp < fifo_cache__H_NP ? kp : 0].first;
}
/* the oldest entry (insertion rank 0) */
static inline uint64_t fifo_oldest(const fifo_cache *c)
{
    return fifo_key_of_node(c, fifo_cache__L0_at_rank(&c->P_L0, &c->m_fifo_list, c->m_fifo_list.size - c->m_used_size));
}
/* ---- postcondition vocabulary ---- */
typedef struct { bool has; uint64_t val; uint64_t ord; } fifo_vw;
static inline fifo_vw fifo_view(const fifo_cache *c, uint64_t k)
{
    fifo_vw r;
    r.has = fifo_has(c, k);
    r.val = r.has ? fifo_val(c, k) : 0;
    r.ord = r.has ? fifo_ord(c, k) : SPEC_NONE;
    return r;
}
static inline bool fifo_vw_kept(fifo_vw a, fifo_vw b) { return b.has == a.has && (!a.has || b.val == a.val); }
static inline bool fifo_vw_same(fifo_vw a, fifo_vw b) { return fifo_vw_kept(a, b) && b.ord == a.ord; }
static inline bool fifo_frame(fifo_cache o, const fifo_cache *n)
{
    return o.m_fifo_list.size == n->m_fifo_list.size && n->m_keyed_elements.reserved >= n->m_fifo_list.size
           && o.m_lock.m_lock.held == n->m_lock.m_lock.held && o.m_lock.m_lock.acq == n->m_lock.m_lock.acq;
}
static inline bool fifo_frame_pub(fifo_cache o, const fifo_cache *n)
{
    return o.m_fifo_list.size == n->m_fifo_list.size && n->m_keyed_elements.reserved >= n->m_fifo_list.size
           && !n->m_lock.m_lock.held && n->m_lock.m_lock.acq - 1 == o.m_lock.m_lock.acq && n->m_lock.m_lock.acq != 0;
}
static inline bool fifo_noop_all(fifo_cache o, const fifo_cache *n, uint64_t k, uint64_t g)
{
    return fifo_vw_same(fifo_view(&o, g), fifo_view(n, g)) && fifo_vw_same(fifo_view(&o, k), fifo_view(n, k)) && n->m_used_size == o.m_used_size;
}
/* after INSERT of new key k: C12 the victim (iff full) is the earliest-inserted entry; k is the newest */
static inline bool fifo_ins_all(fifo_cache o, const fifo_cache *n, uint64_t k, uint64_t v, uint64_t g)
{
    bool    full = fifo_full(&o);
    fifo_vw og = fifo_view(&o, g), ng = fifo_view(n, g), nk = fifo_view(n, k);
    uint64_t nsize = full ? o.m_fifo_list.size : o.m_used_size + 1;
    if (!(nk.has && nk.val == v && nk.ord == nsize - 1 && n->m_used_size == nsize)) return false;
    if (g == k) return true;
    if (!full) return fifo_vw_same(og, ng);
    if (g == fifo_oldest(&o)) return !ng.has;
    return fifo_vw_kept(og, ng) && ng.ord == (og.has ? og.ord - 1 : SPEC_NONE);
}
/* after UPDATE of resident key k: value replaced, insertion order untouched (C12) */
static inline bool fifo_upd_all(fifo_cache o, const fifo_cache *n, uint64_t k, uint64_t v, uint64_t g)
{
    fifo_vw ok = fifo_view(&o, k), nk = fifo_view(n, k);
    if (!(nk.has && nk.val == v && nk.ord == ok.ord && n->m_used_size == o.m_used_size)) return false;
    return g == k || fifo_vw_same(fifo_view(&o, g), fifo_view(n, g));
}
/* after ERASE of resident key k */
static inline bool fifo_del_all(fifo_cache o, const fifo_cache *n, uint64_t k, uint64_t g)
{
    fifo_vw ok = fifo_view(&o, k), og = fifo_view(&o, g), ng = fifo_view(n, g);
    if (fifo_has(n, k) || n->m_used_size + 1 != o.m_used_size) return false;
    return g == k || (fifo_vw_kept(og, ng) && ng.ord == (og.has ? og.ord - (og.ord > ok.ord ? 1 : 0) : SPEC_NONE));
}
static inline bool fifo_has_o(fifo_cache o, uint64_t k) { return fifo_has(&o, k); }
static inline uint64_t fifo_cap_o(fifo_cache o) { return fifo_cap(&o); }
static inline uint64_t fifo_val_o(fifo_cache o, uint64_t k) { return fifo_val(&o, k); }
static inline uint64_t fifo_key_of_node_o(fifo_cache o, cstl_iter n) { return fifo_key_of_node(&o, n); }
static inline uint64_t fifo_entry_key_o(fifo_cache o, cstl_iter kp) { return fifo_entry_key(&o, kp); }
static inline bool fifo_view_eq(const fifo_cache *a, const fifo_cache *b, uint64_t g) { return fifo_vw_same(fifo_view(a, g), fifo_view(b, g)); }
#endif
