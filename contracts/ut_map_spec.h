/* ut_map_spec.h -- representation invariant and abstract view of ut_map */
#ifndef UT_MAP_SPEC_H
#define UT_MAP_SPEC_H
#include "ut_map.h"
#include "spec_common.h"
#define UB utm
#define UB_C ut_map
#define UBL ut_map__L0
#define UBR ut_map__R
#define UB_VALUES
#include "ut_base.h"
#endif
