/* spec_common.h -- vocabulary shared by all contract headers */
#ifndef SPEC_COMMON_H
#define SPEC_COMMON_H
#include "cstl.h"
#define SPEC_NONE ((uint64_t)0xFFFFFFFFFFFFull)
/* ghost index parameters: arbitrary keys at which universally quantified postconditions are stated.
 * The harness leaves them nondeterministic, so a clause proved at G_g holds for every key. */
extern uint64_t G_g, G_h;
extern int64_t  G_NOW;  /* the clock reading of the call under verification */
extern uint64_t G_RAND; /* the outcome of the random source in the call under verification */
#endif
