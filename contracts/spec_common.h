/* spec_common.h -- vocabulary shared by all contract headers */
#ifndef SPEC_COMMON_H
#define SPEC_COMMON_H
#include "cstl.h"
#define SPEC_NONE ((uint64_t)0xFFFFFFFFFFFFull)
/* ghost index parameters: arbitrary keys at which universally quantified postconditions are stated.
 * The harness leaves them nondeterministic, so a clause proved at G_g holds for every key. */
extern uint64_t G_g, G_h;
#endif
