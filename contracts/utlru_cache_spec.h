/* utlru_cache_spec.h -- lru_cache's representation plus a per-entry deadline, the configured uniform
 * TTL, and a second std::list<size_t> (the ttl list: one node per used slot, SORTED by deadline). */
#ifndef UTLRU_CACHE_SPEC_H
#define UTLRU_CACHE_SPEC_H
#include "utlru_cache.h"
#include "spec_common.h"
#define RB utlru
#define RB_C utlru_cache
#define RBL utlru_cache__L0
#define RBH utlru_cache__H
#define RB_E utlru_cache__element
#define RB_LIST m_lru_list
#define RB_END m_lru_end
#define RB_POS m_lru_position
#define RB_POOL_EXTRA(c) ((c)->m_used_size + 1) /* the ttl list's nodes and sentinel live in the same node pool */
#define RB_FRAME_EXTRA(o, n) ((o).m_ttl == (n)->m_ttl) /* only update_ttl changes the configured TTL */
#include "recency_base.h"
#undef RB_POOL_EXTRA
#undef RB_FRAME_EXTRA

static inline bool utlru_wf(const utlru_cache *c)
{
    if (!utlru_wf_base(c)) return false;
    const utlru_cache__L0_pool *P = &c->P_L0;
    uint64_t cap = c->m_elements.size, used = c->m_used_size;
    cstl_iter th = c->m_ttl_list.head;
    if (!(c->m_ttl_list.size == used && utlru_cache__L0_wf(P, &c->m_ttl_list) && th != c->m_lru_list.head)) return false;
    /* every used slot owns one node of the ttl list, holding its slot number */
    cstl_iter it = P->next[c->m_lru_list.head];
    for (uint64_t i = 0; i < MAXCAP; i++)
        if (i < used && i < cap)
        {
            uint64_t  s = P->val[it];
            cstl_iter tp = c->m_elements.data[s < MAXCAP ? s : 0].m_ttl_position;
            if (!(tp < utlru_cache__L0_NP && P->alive[tp] && !P->sent[tp] && P->owner[tp] == th && P->val[tp] == s)) return false;
            it = P->next[it];
        }
    /* the ttl list is sorted by deadline (what do_prune and clean_expired_values rely on) */
    it = P->next[th];
    cstl_tp prev = 0;
    for (uint64_t i = 0; i < MAXCAP; i++)
        if (i < used)
        {
            uint64_t s = P->val[it < utlru_cache__L0_NP ? it : 0];
            cstl_tp  e = c->m_elements.data[s < MAXCAP ? s : 0].m_expire_time;
            if (i > 0 && prev > e) return false;
            prev = e;
            it = P->next[it < utlru_cache__L0_NP ? it : 0];
        }
    return true;
}
static inline cstl_ms utlru_ttl(const utlru_cache *c) { return c->m_ttl; }
static inline cstl_ms utlru_ttl_o(utlru_cache o) { return o.m_ttl; }
#include "ttl_view.h"
#endif
