/* contracts/lru_cache.h -- representation invariant and abstract view of lru_cache (route B: bounded
 * executable predicates over the extracted struct).  Hand-written specification; included after
 * gen/lru_cache.h.  Everything here is derived from the code and its call sites (wf) or from the
 * property statements (view-level postconditions in lru_cache.spec). */
#ifndef LRU_CACHE_SPEC_H
#define LRU_CACHE_SPEC_H
#include "lru_cache.h"
#include "spec_common.h"

/* ---- representation invariant ---------------------------------------------------------------- */
static inline bool lru_wf(const lru_cache *c)
{
    const lru_cache__L0_pool *LP = &c->P_L0;
    const lru_cache__H_pool  *HP = &c->P_H;
    uint64_t cap = c->m_elements.size, used = c->m_used_size;
    if (!(cap >= 1 && cap <= MAXCAP && used <= cap)) return false;
    /* the recency list: one ring of exactly cap nodes; no other live list node in the pool */
    if (!(c->m_lru_list.size == cap && lru_cache__L0_wf(LP, &c->m_lru_list))) return false;
    if (lru_cache__L0_pool_alive(LP) != cap + 1) return false;
    /* index: size, reserve, live entries */
    if (!(c->m_keyed_elements.size == used && c->m_keyed_elements.reserved >= cap)) return false;
    if (lru_cache__H_pool_alive(HP) != used) return false;
    /* walk the list: slot numbers are a permutation; first `used` nodes are the used ones */
    bool      seen[MAXCAP] = {0};
    cstl_iter it = LP->next[c->m_lru_list.head];
    for (uint64_t i = 0; i < MAXCAP; i++)
    {
        if (i < cap)
        {
            uint64_t s = LP->val[it];
            if (!(s < cap) || seen[s]) return false;
            seen[s] = true;
            if (i == used && c->m_lru_end != it) return false;
            if (i < used)
            {
                const lru_cache__element *e = &c->m_elements.data[s];
                cstl_iter kp = e->m_keyed_position;
                if (e->m_lru_position != it) return false;
                if (!(kp < lru_cache__H_NP && HP->alive[kp] && HP->kv[kp].second == s)) return false;
            }
            it = LP->next[it];
        }
    }
    if (used == cap && c->m_lru_end != c->m_lru_list.head) return false;
    /* live index keys pairwise distinct */
    for (cstl_iter a = 0; a < lru_cache__H_NP; a++)
        for (cstl_iter b = a + 1; b < lru_cache__H_NP; b++)
            if (HP->alive[a] && HP->alive[b] && HP->kv[a].first == HP->kv[b].first) return false;
    return true;
}

/* ---- abstract view --------------------------------------------------------------------------- */
static inline bool lru_has(const lru_cache *c, uint64_t k) { return lru_cache__H_find(&c->P_H, &c->m_keyed_elements, k) != lru_cache__H_END; }
static inline uint64_t lru_slot(const lru_cache *c, uint64_t k)
{
    cstl_iter n = lru_cache__H_find(&c->P_H, &c->m_keyed_elements, k);
    return n == lru_cache__H_END ? MAXCAP : c->P_H.kv[n].second;
}
static inline uint64_t lru_val(const lru_cache *c, uint64_t k)
{
    uint64_t s = lru_slot(c, k);
    return s < MAXCAP ? c->m_elements.data[s].m_value : 0;
}
/* recency rank: 0 = most recently used; NONE if absent */
static inline uint64_t lru_ord(const lru_cache *c, uint64_t k)
{
    uint64_t s = lru_slot(c, k);
    return s < MAXCAP ? lru_cache__L0_rank(&c->P_L0, &c->m_lru_list, c->m_elements.data[s].m_lru_position) : SPEC_NONE;
}
static inline uint64_t lru_size(const lru_cache *c) { return c->m_used_size; }
static inline uint64_t lru_cap(const lru_cache *c) { return c->m_elements.size; }
static inline bool lru_held(const lru_cache *c) { return c->m_lock.m_lock.held; }
static inline uint64_t lru_acq(const lru_cache *c) { return c->m_lock.m_lock.acq; }
/* slot idx currently holds an entry (is referenced by one of the first `used` list nodes) */
static inline bool lru_slot_used(const lru_cache *c, uint64_t idx)
{
    if (!(idx < c->m_elements.size)) return false;
    return lru_cache__L0_rank(&c->P_L0, &c->m_lru_list, c->m_elements.data[idx].m_lru_position) < c->m_used_size
           && c->P_L0.val[c->m_elements.data[idx].m_lru_position < lru_cache__L0_NP ? c->m_elements.data[idx].m_lru_position : 0] == idx;
}
static inline uint64_t lru_key_of_slot(const lru_cache *c, uint64_t idx)
{
    cstl_iter kp = c->m_elements.data[idx < MAXCAP ? idx : 0].m_keyed_position;
    return c->P_H.kv[kp < lru_cache__H_NP ? kp : 0].first;
}
/* key at recency rank r (undefined if r >= size) */
static inline uint64_t lru_key_at(const lru_cache *c, uint64_t r)
{
    cstl_iter it = lru_cache__L0_at_rank(&c->P_L0, &c->m_lru_list, r);
    uint64_t  s  = c->P_L0.val[it < lru_cache__L0_NP ? it : 0];
    return lru_key_of_slot(c, s);
}
static inline bool lru_entry_live(const lru_cache *c, cstl_iter kp) { return kp < lru_cache__H_NP && c->P_H.alive[kp]; }
static inline uint64_t lru_entry_key(const lru_cache *c, cstl_iter kp) { return c->P_H.kv[kp < lru_cache__H_NP ? kp : 0].first; }

/* ---- postcondition vocabulary (o = state before the call, by value; n = state after) --------- */
/* configuration and lock state are outside the effect of every private helper */
static inline bool lru_frame(lru_cache o, const lru_cache *n)
{
    return o.m_elements.size == n->m_elements.size && n->m_keyed_elements.reserved >= n->m_elements.size
           && o.m_lock.m_lock.held == n->m_lock.m_lock.held && o.m_lock.m_lock.acq == n->m_lock.m_lock.acq;
}
/* a public method: one critical section, configuration unchanged */
static inline bool lru_frame_pub(lru_cache o, const lru_cache *n)
{
    return o.m_elements.size == n->m_elements.size && n->m_keyed_elements.reserved >= n->m_elements.size
           && !n->m_lock.m_lock.held && n->m_lock.m_lock.acq - 1 == o.m_lock.m_lock.acq && n->m_lock.m_lock.acq != 0;
}
/* entry under key g untouched: presence and value */
static inline bool lru_kept(lru_cache o, const lru_cache *n, uint64_t g)
{
    return lru_has(n, g) == lru_has(&o, g) && (!lru_has(&o, g) || lru_val(n, g) == lru_val(&o, g));
}
static inline bool lru_ord_same(lru_cache o, const lru_cache *n, uint64_t g) { return lru_ord(n, g) == lru_ord(&o, g); }
/* recency order after a USE of resident key k: k first, entries that were ahead of k shift by one */
static inline bool lru_ord_use(lru_cache o, const lru_cache *n, uint64_t k, uint64_t g)
{
    uint64_t og = lru_ord(&o, g), ok = lru_ord(&o, k);
    return lru_ord(n, g) == (g == k ? 0 : og == SPEC_NONE ? SPEC_NONE : og + (og < ok ? 1 : 0));
}
/* recency order after REMOVAL of resident key k */
static inline bool lru_ord_del(lru_cache o, const lru_cache *n, uint64_t k, uint64_t g)
{
    uint64_t og = lru_ord(&o, g), ok = lru_ord(&o, k);
    return lru_ord(n, g) == (g == k || og == SPEC_NONE ? SPEC_NONE : og - (og > ok ? 1 : 0));
}
/* the eviction victim of an insert of a new key: the least recently used entry, iff the cache is full */
static inline bool lru_full(const lru_cache *c) { return c->m_used_size >= c->m_elements.size; }
static inline uint64_t lru_victim(const lru_cache *c) { return lru_key_at(c, c->m_used_size - 1); }
/* state after INSERT of new key k with value v, observed at g */
static inline bool lru_ins_has(lru_cache o, const lru_cache *n, uint64_t k, uint64_t g)
{
    bool evicted = lru_full(&o) && g == lru_victim(&o);
    return lru_has(n, g) == (g == k ? true : evicted ? false : lru_has(&o, g));
}
static inline bool lru_ins_val(lru_cache o, const lru_cache *n, uint64_t k, uint64_t v, uint64_t g)
{
    return !lru_has(n, g) || lru_val(n, g) == (g == k ? v : lru_val(&o, g));
}
static inline bool lru_ins_ord(lru_cache o, const lru_cache *n, uint64_t k, uint64_t g)
{
    uint64_t og = lru_ord(&o, g);
    bool     evicted = lru_full(&o) && g == lru_victim(&o);
    return lru_ord(n, g) == (g == k ? 0 : (og == SPEC_NONE || evicted) ? SPEC_NONE : og + 1);
}
static inline bool lru_ins_size(lru_cache o, const lru_cache *n) { return lru_size(n) == (lru_full(&o) ? lru_cap(&o) : lru_size(&o) + 1); }
/* the whole view unchanged at g */
static inline bool lru_same(lru_cache o, const lru_cache *n, uint64_t g) { return lru_kept(o, n, g) && lru_ord_same(o, n, g); }
static inline bool lru_size_same(lru_cache o, const lru_cache *n) { return lru_size(n) == lru_size(&o); }
/* by-value accessors for the pre-state */
static inline bool lru_has_o(lru_cache o, uint64_t k) { return lru_has(&o, k); }
static inline uint64_t lru_val_o(lru_cache o, uint64_t k) { return lru_val(&o, k); }
static inline uint64_t lru_size_o(lru_cache o) { return lru_size(&o); }
static inline uint64_t lru_key_of_slot_o(lru_cache o, uint64_t idx) { return lru_key_of_slot(&o, idx); }
static inline uint64_t lru_entry_key_o(lru_cache o, cstl_iter kp) { return lru_entry_key(&o, kp); }
static inline uint64_t lru_victim_o(lru_cache o) { return lru_victim(&o); }
#endif
