/* lru_cache_spec.h -- representation invariant and abstract view of lru_cache (route B: bounded
 * executable predicates over the extracted struct).  Hand-written specification. wf is derived from
 * the code and its call sites; the view-level postconditions in lru_cache.spec from the properties. */
#ifndef LRU_CACHE_SPEC_H
#define LRU_CACHE_SPEC_H
#include "lru_cache.h"
#include "spec_common.h"
#define RB lru
#define RB_C lru_cache
#define RBL lru_cache__L0
#define RBH lru_cache__H
#define RB_E lru_cache__element
#define RB_LIST m_lru_list
#define RB_END m_lru_end
#define RB_POS m_lru_position
#include "recency_base.h"
static inline bool lru_wf(const lru_cache *c) { return lru_wf_base(c); }
/* the whole view of key g is the same in two states (C18 relational harnesses) */
static inline bool lru_view_eq(const lru_cache *a, const lru_cache *b, uint64_t g)
{
    return lru_has(a, g) == lru_has(b, g) && (!lru_has(a, g) || lru_val(a, g) == lru_val(b, g)) && lru_ord(a, g) == lru_ord(b, g);
}
#endif
