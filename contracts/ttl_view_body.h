/* deadline of resident key k (0 if absent) */
static inline cstl_tp TV(exp)(const TV_C *c, uint64_t k)
{
    uint64_t s = TV(slot)(c, k);
    return s < MAXCAP ? c->m_elements.data[s].m_expire_time : 0;
}
static inline cstl_tp TV(exp_o)(TV_C o, uint64_t k) { return TV(exp)(&o, k); }
/* resident and not expired at `now` (the boundary is inclusive: now == deadline is expired) */
static inline bool TV(live)(const TV_C *c, uint64_t k, cstl_tp now) { return TV(has)(c, k) && now < TV(exp)(c, k); }
static inline bool TV(live_o)(TV_C o, uint64_t k, cstl_tp now) { return TV(live)(&o, k, now); }
static inline bool TV(dead_o)(TV_C o, uint64_t k, cstl_tp now) { return TV(has)(&o, k) && now >= TV(exp)(&o, k); }
/* entry under g untouched: presence, value and deadline */
static inline bool TV(keptx)(TV_C o, const TV_C *n, uint64_t g)
{
    return TV(kept)(o, n, g) && (!TV(has)(&o, g) || TV(exp)(n, g) == TV(exp)(&o, g));
}
static inline bool TV(samex)(TV_C o, const TV_C *n, uint64_t g) { return TV(keptx)(o, n, g) && TV(ord_same)(o, n, g); }
/* the key that was resident in o and is not in n (first by rank); SPEC_NONE if there is none */
static inline uint64_t TV(lost)(TV_C o, const TV_C *n)
{
    for (uint64_t r = 0; r < MAXCAP; r++)
        if (r < o.m_used_size)
        {
            uint64_t k = TV(key_at)(&o, r);
            if (!TV(has)(n, k)) return k;
        }
    return SPEC_NONE;
}
/* eviction rule of tlru/utlru (C16, C10): the lost key v was resident; if ANY resident (ghost h) had
 * expired at `now`, v had expired; if v was still live it was the least recently used entry */
static inline bool TV(victim_rule)(TV_C o, const TV_C *n, cstl_tp now, uint64_t h)
{
    uint64_t v = TV(lost)(o, n);
    if (v == SPEC_NONE) return false;
    if (TV(dead_o)(o, h, now) && !(now >= TV(exp)(&o, v))) return false;
    if (now < TV(exp)(&o, v) && TV(ord)(&o, v) != o.m_used_size - 1) return false;
    return true;
}
/* state after INSERT of a new key k (value v, deadline e) at `now`, observed at g */
static inline bool TV(tins_has)(TV_C o, const TV_C *n, uint64_t k, uint64_t g)
{
    bool evicted = TV(full)(&o) && g == TV(lost)(o, n);
    return TV(has)(n, g) == (g == k ? true : evicted ? false : TV(has)(&o, g));
}
static inline bool TV(tins_val)(TV_C o, const TV_C *n, uint64_t k, uint64_t v, cstl_tp e, uint64_t g)
{
    if (!TV(has)(n, g)) return true;
    return TV(val)(n, g) == (g == k ? v : TV(val)(&o, g)) && TV(exp)(n, g) == (g == k ? e : TV(exp)(&o, g));
}
static inline bool TV(tins_ord)(TV_C o, const TV_C *n, uint64_t k, uint64_t g)
{
    uint64_t og = TV(ord)(&o, g);
    uint64_t lost = TV(full)(&o) ? TV(lost)(o, n) : SPEC_NONE;
    uint64_t ov = lost == SPEC_NONE ? SPEC_NONE : TV(ord)(&o, lost);
    return TV(ord)(n, g) == (g == k ? 0 : (og == SPEC_NONE || g == lost) ? SPEC_NONE : og + (og < ov ? 1 : 0));
}
static inline bool TV(tins_all)(TV_C o, const TV_C *n, uint64_t k, uint64_t v, cstl_tp now, cstl_tp e, uint64_t g, uint64_t h)
{
    return TV(tins_has)(o, n, k, g) && TV(tins_has)(o, n, k, k) && TV(tins_val)(o, n, k, v, e, g) && TV(tins_val)(o, n, k, v, e, k)
           && TV(tins_ord)(o, n, k, g) && TV(tins_ord)(o, n, k, k) && TV(ins_size)(o, n)
           && (!TV(full)(&o) || (TV(lost)(o, n) != k && TV(victim_rule)(o, n, now, h) && TV(victim_rule)(o, n, now, g)));
}
/* state after UPDATE of resident key k */
static inline bool TV(tupd_all)(TV_C o, const TV_C *n, uint64_t k, uint64_t v, cstl_tp e, uint64_t g)
{
    return TV(has)(n, k) && TV(val)(n, k) == v && TV(exp)(n, k) == e && (g == k || TV(keptx)(o, n, g))
           && TV(ord_use)(o, n, k, g) && TV(ord_use)(o, n, k, k) && TV(size_same)(o, n);
}
/* state after ERASE of resident key k */
static inline bool TV(tdel_all)(TV_C o, const TV_C *n, uint64_t k, uint64_t g)
{
    return !TV(has)(n, k) && (g == k || TV(keptx)(o, n, g)) && TV(ord_del)(o, n, k, g) && TV(size)(n) + 1 == TV(size)(&o);
}
static inline bool TV(noop_all)(TV_C o, const TV_C *n, uint64_t k, uint64_t g)
{
    return TV(samex)(o, n, g) && TV(samex)(o, n, k) && TV(size_same)(o, n);
}
/* does insert(k, a) at `now` succeed? (C09: allow::insert succeeds iff k has no LIVE entry; allow::update
 * iff k is resident -- an expired-but-unreaped entry counts, which C09 permits) */
static inline bool TV(ins_ok)(TV_C o, uint64_t k, cstl_tp now, uint64_t a)
{
    return TV(has)(&o, k) ? ((a & 2) != 0 || ((a & 1) != 0 && now >= TV(exp)(&o, k))) : (a & 1) != 0;
}
/* lookup of k at `now`: result and effect */
static inline bool TV(find_post)(TV_C o, const TV_C *n, uint64_t k, cstl_tp now, int peek, cstl_opt r, uint64_t g)
{
    if (TV(live)(&o, k, now))
    {
        if (!(r.has && r.v == TV(val)(&o, k))) return false;
        if (!(TV(keptx)(o, n, g) && TV(keptx)(o, n, k) && TV(size_same)(o, n))) return false;
        if (peek == cappuccino_peek_no) return TV(ord_use)(o, n, k, g) && TV(ord_use)(o, n, k, k);
        return TV(ord_same)(o, n, g) && TV(ord_same)(o, n, k);
    }
    if (r.has) return false;
    if (TV(has)(&o, k)) return TV(tdel_all)(o, n, k, g); /* expired: removed on the spot */
    return TV(noop_all)(o, n, k, g);
}
/* time arithmetic of the public entry points */
static inline bool TV(ttl_ok)(cstl_tp now, cstl_ms ttl) { return ttl >= 0 && ttl <= (INT64_MAX / 1000000) && now >= 0 && now <= INT64_MAX - ttl * 1000000; }
static inline cstl_tp TV(deadline)(cstl_tp now, cstl_ms ttl) { return now + ttl * 1000000; }
