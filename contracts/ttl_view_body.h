/* deadline of resident key k (0 if absent) */
static inline cstl_tp TV(exp)(const TV_C *c, uint64_t k)
{
    uint64_t s = TV(slot)(c, k);
    return s < MAXCAP ? c->m_elements.data[s].m_expire_time : 0;
}
static inline cstl_tp TV(exp_o)(TV_C o, uint64_t k) { return TV(exp)(&o, k); }
/* resident and not expired at `now` (the boundary is inclusive: now == deadline is expired) */
static inline bool TV(live)(const TV_C *c, uint64_t k, cstl_tp now) { return TV(has)(c, k) && now < TV(exp)(c, k); }
static inline bool TV(live_o)(TV_C o, uint64_t k, cstl_tp now) { return TV(live)(&o, k, now); }
static inline bool TV(dead_o)(TV_C o, uint64_t k, cstl_tp now) { return TV(has)(&o, k) && now >= TV(exp)(&o, k); }
/* ---- the view of one key, computed once per (state, key) ------------------------------------------ */
typedef struct { bool has; uint64_t val; cstl_tp exp; uint64_t ord; } TV(vw);
static inline TV(vw) TV(view)(const TV_C *c, uint64_t k)
{
    TV(vw)   r;
    uint64_t s = TV(slot)(c, k);
    r.has = s < MAXCAP;
    r.val = r.has ? c->m_elements.data[s].m_value : 0;
    r.exp = r.has ? c->m_elements.data[s].m_expire_time : 0;
    r.ord = r.has ? TV(ord)(c, k) : SPEC_NONE;
    return r;
}
/* entry untouched: presence, value and deadline */
static inline bool TV(vw_keptx)(TV(vw) a, TV(vw) b) { return b.has == a.has && (!a.has || (b.val == a.val && b.exp == a.exp)); }
static inline bool TV(vw_same)(TV(vw) a, TV(vw) b) { return TV(vw_keptx)(a, b) && b.ord == a.ord; }
static inline bool TV(keptx)(TV_C o, const TV_C *n, uint64_t g) { return TV(vw_keptx)(TV(view)(&o, g), TV(view)(n, g)); }
/* rank (in o) of the first key that was resident in o and is not in n; MAXCAP if there is none.
 * (A rank, not a key: every uint64_t is a legal key, so no key value can serve as "none".) */
static inline uint64_t TV(lost_rank)(TV_C o, const TV_C *n)
{
    for (uint64_t r = 0; r < MAXCAP; r++)
        if (r < o.m_used_size)
        {
            uint64_t k = TV(key_at)(&o, r);
            if (!TV(has)(n, k)) return r;
        }
    return MAXCAP;
}
static inline bool TV(lost_any)(TV_C o, const TV_C *n) { return TV(lost_rank)(o, n) < MAXCAP; }
static inline uint64_t TV(lost)(TV_C o, const TV_C *n) { return TV(key_at)(&o, TV(lost_rank)(o, n)); }
/* eviction rule of tlru/utlru (C16, C10) for the lost key (rank lr, deadline le): if ANY resident (view oh)
 * had expired at `now`, the victim had expired; if the victim was still live it was the least recently used */
static inline bool TV(vrule)(uint64_t used, uint64_t lr, cstl_tp le, cstl_tp now, TV(vw) oh)
{
    if (oh.has && now >= oh.exp && !(now >= le)) return false;
    if (now < le && lr != used - 1) return false;
    return true;
}
static inline bool TV(victim_rule)(TV_C o, const TV_C *n, cstl_tp now, uint64_t h)
{
    uint64_t lr = TV(lost_rank)(o, n);
    if (lr >= MAXCAP) return false;
    return TV(vrule)(o.m_used_size, lr, TV(exp)(&o, TV(key_at)(&o, lr)), now, TV(view)(&o, h));
}
/* state after INSERT of a new key k (value v, deadline e) at `now`, observed at g (and h for the victim rule) */
static inline bool TV(tins_all)(TV_C o, const TV_C *n, uint64_t k, uint64_t v, cstl_tp now, cstl_tp e, uint64_t g, uint64_t h)
{
    bool   full = TV(full)(&o);
    TV(vw) og = TV(view)(&o, g), ng = TV(view)(n, g), nk = TV(view)(n, k), oh = TV(view)(&o, h);
    if (!(nk.has && nk.val == v && nk.exp == e && nk.ord == 0)) return false;
    if (n->m_used_size != (full ? o.m_elements.size : o.m_used_size + 1)) return false;
    if (!full)
        return g == k || (TV(vw_keptx)(og, ng) && ng.ord == (og.has ? og.ord + 1 : SPEC_NONE));
    uint64_t lr = TV(lost_rank)(o, n);
    if (lr >= MAXCAP) return false;
    uint64_t lk = TV(key_at)(&o, lr);
    cstl_tp  le = TV(exp)(&o, lk);
    if (!(TV(vrule)(o.m_used_size, lr, le, now, oh) && TV(vrule)(o.m_used_size, lr, le, now, og))) return false;
    if (g == k) return true;
    if (g == lk) return !ng.has;
    return TV(vw_keptx)(og, ng) && ng.ord == (og.has ? og.ord + (og.ord < lr ? 1 : 0) : SPEC_NONE);
}
/* state after UPDATE of resident key k */
static inline bool TV(tupd_all)(TV_C o, const TV_C *n, uint64_t k, uint64_t v, cstl_tp e, uint64_t g)
{
    TV(vw) ok = TV(view)(&o, k), nk = TV(view)(n, k), og = TV(view)(&o, g), ng = TV(view)(n, g);
    if (!(nk.has && nk.val == v && nk.exp == e && nk.ord == 0 && n->m_used_size == o.m_used_size)) return false;
    return g == k || (TV(vw_keptx)(og, ng) && ng.ord == (og.has ? og.ord + (og.ord < ok.ord ? 1 : 0) : SPEC_NONE));
}
/* state after a USE (non-peek hit) of resident key k: as an update that keeps value and deadline */
static inline bool TV(tuse_all)(TV_C o, const TV_C *n, uint64_t k, uint64_t g)
{
    TV(vw) ok = TV(view)(&o, k), nk = TV(view)(n, k), og = TV(view)(&o, g), ng = TV(view)(n, g);
    if (!(TV(vw_keptx)(ok, nk) && nk.ord == 0 && n->m_used_size == o.m_used_size)) return false;
    return g == k || (TV(vw_keptx)(og, ng) && ng.ord == (og.has ? og.ord + (og.ord < ok.ord ? 1 : 0) : SPEC_NONE));
}
/* state after ERASE of resident key k */
static inline bool TV(tdel_all)(TV_C o, const TV_C *n, uint64_t k, uint64_t g)
{
    TV(vw) ok = TV(view)(&o, k), og = TV(view)(&o, g), ng = TV(view)(n, g);
    if (TV(has)(n, k) || n->m_used_size + 1 != o.m_used_size) return false;
    return g == k || (TV(vw_keptx)(og, ng) && ng.ord == (og.has ? og.ord - (og.ord > ok.ord ? 1 : 0) : SPEC_NONE));
}
static inline bool TV(noop_all)(TV_C o, const TV_C *n, uint64_t k, uint64_t g)
{
    return TV(vw_same)(TV(view)(&o, g), TV(view)(n, g)) && TV(vw_same)(TV(view)(&o, k), TV(view)(n, k)) && n->m_used_size == o.m_used_size;
}
/* does insert(k, a) at `now` succeed? (C09: allow::insert succeeds iff k has no LIVE entry; allow::update
 * iff k is resident -- an expired-but-unreaped entry counts, which C09 permits) */
static inline bool TV(ins_ok)(TV_C o, uint64_t k, cstl_tp now, uint64_t a)
{
    return TV(has)(&o, k) ? ((a & 2) != 0 || ((a & 1) != 0 && now >= TV(exp)(&o, k))) : (a & 1) != 0;
}
/* lookup of k at `now`: result and effect */
static inline bool TV(find_post)(TV_C o, const TV_C *n, uint64_t k, cstl_tp now, int peek, cstl_opt r, uint64_t g)
{
    TV(vw) ok = TV(view)(&o, k);
    if (ok.has && now < ok.exp)
    {
        if (!(r.has && r.v == ok.val)) return false;
        return peek == cappuccino_peek_no ? TV(tuse_all)(o, n, k, g) : TV(noop_all)(o, n, k, g);
    }
    if (r.has) return false;
    return ok.has ? TV(tdel_all)(o, n, k, g) /* expired: removed on the spot */ : TV(noop_all)(o, n, k, g);
}
/* time arithmetic of the public entry points */
static inline bool TV(view_eq)(const TV_C *a, const TV_C *b, uint64_t g) { return TV(vw_same)(TV(view)(a, g), TV(view)(b, g)); }
/* "TTL representable on the clock": 0 <= ttl, convertible, and now + ttl does not overflow the 64-bit
 * nanosecond clock.  ttl == G_MS ties the call's TTL to the abstracted conversion (cstl.h). */
static inline bool TV(ttl_ok)(cstl_tp now, cstl_ms ttl) { return ttl == G_MS && ttl >= 0 && ttl <= INT64_MAX / 1000000 && now >= 0 && now <= INT64_MAX - cstl_ms_to_ns(ttl); }
static inline cstl_tp TV(deadline)(cstl_tp now, cstl_ms ttl) { return now + cstl_ms_to_ns(ttl); }
