/* ut_set_spec.h -- representation invariant and abstract view of ut_set (ut_map without values) */
#ifndef UT_SET_SPEC_H
#define UT_SET_SPEC_H
#include "ut_set.h"
#include "spec_common.h"
#define UB uts
#define UB_C ut_set
#define UBL ut_set__L0
#define UBR ut_set__R
#undef UB_VALUES
#include "ut_base.h"
#endif
