/* lfuda_cache_spec.h -- lfu_cache's representation plus a per-entry idle timestamp; the used part of the
 * list is the dynamic age list, ORDERED by that timestamp (oldest first) -- what do_dynamic_age relies on. */
#ifndef LFUDA_CACHE_SPEC_H
#define LFUDA_CACHE_SPEC_H
#include "lfuda_cache.h"
#include "spec_common.h"
#define LB lfuda
#define LB_C lfuda_cache
#define LBL lfuda_cache__L0
#define LBH lfuda_cache__H
#define LBR lfuda_cache__R
#define LB_E lfuda_cache__element
#define LB_LIST m_dynamic_age_list
#define LB_AGED
#define LB_FRAME_EXTRA_ &&o.m_dynamic_age_tick == n->m_dynamic_age_tick && o.m_dynamic_age_ratio == n->m_dynamic_age_ratio
#include "lfu_base.h"

static inline bool lfuda_wf(const lfuda_cache *c)
{
    if (!lfuda_wf_base(c)) return false;
    if (!(c->m_dynamic_age_ratio >= 0.0f && c->m_dynamic_age_ratio <= 1.0f)) return false; /* configuration: ratio in [0,1] */
    cstl_iter it = c->P_L0.next[c->m_dynamic_age_list.head];
    cstl_tp   prev = 0;
    for (uint64_t i = 0; i < MAXCAP; i++)
        if (i < c->m_used_size)
        {
            cstl_tp a = c->P_L0.val[it < lfuda_cache__L0_NP ? it : 0].m_dynamic_age;
            if (i > 0 && prev > a) return false; /* ordered by idle timestamp, oldest first */
            prev = a;
            it = c->P_L0.next[it < lfuda_cache__L0_NP ? it : 0];
        }
    return true;
}
/* preconditions on time and arithmetic of the timed operations (listed assumptions):
 *  - steady_clock is monotone: `now` is not before any stored timestamp;
 *  - tick is the one duration converted (G_MS), 0 < tick, and timestamp + tick is representable;
 *  - use counts are below 2^24, where (size_t)((float)count * ratio) is exact. */
static inline bool lfuda_time_ok(const lfuda_cache *c, cstl_tp now)
{
    if (!(c->m_dynamic_age_tick == G_MS && G_MS > 0 && G_MS <= INT64_MAX / 1000000)) return false;
    if (!(now >= 0 && now <= INT64_MAX - cstl_ms_to_ns(G_MS))) return false;
    for (cstl_iter n = 0; n < lfuda_cache__L0_NP; n++)
        if (c->P_L0.alive[n] && !c->P_L0.sent[n] && !(c->P_L0.val[n].m_dynamic_age >= 0 && c->P_L0.val[n].m_dynamic_age <= now)) return false;
    for (cstl_iter n = 0; n < lfuda_cache__R_NP; n++)
        if (c->P_R.alive[n] && c->P_R.kv[n].first >= (1ull << 24)) return false;
    return true;
}
/* the ratios for which the float expression (size_t)(count * ratio) is decided bit-precisely: a symbolic
 * float multiplication is intractable for the SAT back end (measured), so the ratio ranges over this set
 * of dyadic values (listed assumption; C14 quantifies over dyadic ratios in [0,1]) */
static inline bool lfuda_ratio_ok(const lfuda_cache *c)
{
    float r = c->m_dynamic_age_ratio;
    return r == 0.0f || r == 0.25f || r == 0.5f || r == 0.75f || r == 1.0f;
}
/* idle for strictly longer than the tick at `now` */
static inline bool lfuda_idle(cstl_tp age, cstl_tp now) { return age + cstl_ms_to_ns(G_MS) < now; }
static inline uint64_t lfuda_decay(uint64_t cnt, float ratio) { return (uint64_t)((float)cnt * ratio); }
/* number of resident entries that are idle at `now` */
static inline uint64_t lfuda_idle_count(lfuda_cache o, cstl_tp now)
{
    uint64_t  n = 0;
    cstl_iter it = o.P_L0.next[o.m_dynamic_age_list.head];
    for (uint64_t i = 0; i < MAXCAP; i++)
        if (i < o.m_used_size)
        {
            if (lfuda_idle(o.P_L0.val[it < lfuda_cache__L0_NP ? it : 0].m_dynamic_age, now)) n++;
            it = o.P_L0.next[it < lfuda_cache__L0_NP ? it : 0];
        }
    return n;
}
/* the view of g after an aging point at `now` (C14): idle entries decay and restart their timer, others keep */
static inline lfuda_vw lfuda_aged(lfuda_vw a, cstl_tp now, float ratio)
{
    if (a.has && lfuda_idle(a.age, now)) { a.cnt = lfuda_decay(a.cnt, ratio); a.age = now; }
    return a;
}
static inline bool lfuda_age_all(lfuda_cache o, const lfuda_cache *n, cstl_tp now, uint64_t g)
{
    return n->m_used_size == o.m_used_size && lfuda_vw_same(lfuda_aged(lfuda_view(&o, g), now, o.m_dynamic_age_ratio), lfuda_view(n, g));
}
/* after ERASE of resident key k */
static inline bool lfuda_del_all(lfuda_cache o, const lfuda_cache *n, uint64_t k, uint64_t g)
{
    if (lfuda_has(n, k) || n->m_used_size + 1 != o.m_used_size) return false;
    return g == k || lfuda_vw_same(lfuda_view(&o, g), lfuda_view(n, g));
}
/* after a USE of resident key k at `now`: count + 1, idle timer restarted (C11, C14) */
static inline bool lfuda_use_all(lfuda_cache o, const lfuda_cache *n, uint64_t k, bool upd, uint64_t v, cstl_tp now, uint64_t g)
{
    lfuda_vw ok = lfuda_view(&o, k), nk = lfuda_view(n, k);
    if (!(nk.has && nk.val == (upd ? v : ok.val) && nk.cnt == ok.cnt + 1 && nk.age == now && n->m_used_size == o.m_used_size)) return false;
    return g == k || lfuda_vw_same(lfuda_view(&o, g), lfuda_view(n, g));
}
/* after INSERT of new key k at `now`: iff full, first an aging point, then one victim whose AGED count is minimal */
static inline bool lfuda_ins_all(lfuda_cache o, const lfuda_cache *n, uint64_t k, uint64_t v, cstl_tp now, uint64_t g)
{
    bool     full = lfuda_full(&o);
    lfuda_vw og = lfuda_view(&o, g), ng = lfuda_view(n, g), nk = lfuda_view(n, k);
    if (!(nk.has && nk.val == v && nk.cnt == 1 && nk.age == now)) return false;
    if (n->m_used_size != (full ? o.m_dynamic_age_list.size : o.m_used_size + 1)) return false;
    if (g == k) return true;
    if (!full) return lfuda_vw_same(og, ng);
    uint64_t lr = lfuda_lost_rank(o, n);
    if (lr >= MAXCAP) return false;
    cstl_iter ln = lfuda_cache__L0_at_rank(&o.P_L0, &o.m_dynamic_age_list, lr);
    uint64_t  lk = lfuda_key_of_node(&o, ln);
    lfuda_vw  ol = lfuda_aged(lfuda_view(&o, lk), now, o.m_dynamic_age_ratio), oga = lfuda_aged(og, now, o.m_dynamic_age_ratio);
    if (og.has && ol.cnt > oga.cnt) return false; /* the victim's aged count is minimal */
    if (g == lk) return !ng.has;
    return lfuda_vw_same(oga, ng);
}
#endif
