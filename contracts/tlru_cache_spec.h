/* tlru_cache_spec.h -- lru_cache's representation plus a per-entry deadline and the multimap
 * deadline -> slot.  View adds exp(k). */
#ifndef TLRU_CACHE_SPEC_H
#define TLRU_CACHE_SPEC_H
#include "tlru_cache.h"
#include "spec_common.h"
#define RB tlru
#define RB_C tlru_cache
#define RBL tlru_cache__L0
#define RBH tlru_cache__H
#define RB_E tlru_cache__element
#define RB_LIST m_lru_list
#define RB_END m_lru_end
#define RB_POS m_lru_position
#include "recency_base.h"

static inline bool tlru_wf(const tlru_cache *c)
{
    if (!tlru_wf_base(c)) return false;
    const tlru_cache__R_pool *RP = &c->P_R;
    uint64_t cap = c->m_elements.size, used = c->m_used_size;
    /* deadline index: one live multimap entry (deadline, slot) per used slot, and nothing else */
    if (!(c->m_ttl_list.size == used && tlru_cache__R_pool_alive(RP) == used)) return false;
    cstl_iter it = c->P_L0.next[c->m_lru_list.head];
    for (uint64_t i = 0; i < MAXCAP; i++)
    {
        if (i < used && i < cap)
        {
            uint64_t s = c->P_L0.val[it];
            const tlru_cache__element *e = &c->m_elements.data[s < MAXCAP ? s : 0];
            cstl_iter tp = e->m_ttl_position;
            if (!(tp < tlru_cache__R_NP && RP->alive[tp] && RP->kv[tp].second == s && RP->kv[tp].first == e->m_expire_time)) return false;
            it = c->P_L0.next[it];
        }
    }
    return true;
}
#include "ttl_view.h"
#endif
