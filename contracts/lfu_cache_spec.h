/* lfu_cache_spec.h -- representation invariant and abstract view of lfu_cache */
#ifndef LFU_CACHE_SPEC_H
#define LFU_CACHE_SPEC_H
#include "lfu_cache.h"
#include "spec_common.h"
#define LB lfu
#define LB_C lfu_cache
#define LBL lfu_cache__L0
#define LBH lfu_cache__H
#define LBR lfu_cache__R
#define LB_E lfu_cache__element
#define LB_LIST m_open_list
#define LB_FRAME_EXTRA_
#include "lfu_base.h"
static inline bool lfu_wf(const lfu_cache *c) { return lfu_wf_base(c); }
/* "use counts below 2^63": increments cannot wrap (arithmetic assumption, a precondition only) */
static inline bool lfu_counts_ok(const lfu_cache *c)
{
    for (cstl_iter n = 0; n < lfu_cache__R_NP; n++)
        if (c->P_R.alive[n] && c->P_R.kv[n].first >= (1ull << 63)) return false;
    return true;
}
/* after ERASE of resident key k */
static inline bool lfu_del_all(lfu_cache o, const lfu_cache *n, uint64_t k, uint64_t g)
{
    if (lfu_has(n, k) || n->m_used_size + 1 != o.m_used_size) return false;
    return g == k || lfu_vw_same(lfu_view(&o, g), lfu_view(n, g));
}
/* after a USE of resident key k (update with value v when upd, else non-peek hit): count + 1 (C11) */
static inline bool lfu_use_all(lfu_cache o, const lfu_cache *n, uint64_t k, bool upd, uint64_t v, uint64_t g)
{
    lfu_vw ok = lfu_view(&o, k), nk = lfu_view(n, k);
    if (!(nk.has && nk.val == (upd ? v : ok.val) && nk.cnt == ok.cnt + 1 && n->m_used_size == o.m_used_size)) return false;
    return g == k || lfu_vw_same(lfu_view(&o, g), lfu_view(n, g));
}
/* after INSERT of new key k: count 1; iff full one victim whose count was minimal among the residents (C11) */
static inline bool lfu_ins_all(lfu_cache o, const lfu_cache *n, uint64_t k, uint64_t v, uint64_t g)
{
    bool   full = lfu_full(&o);
    lfu_vw og = lfu_view(&o, g), ng = lfu_view(n, g), nk = lfu_view(n, k);
    if (!(nk.has && nk.val == v && nk.cnt == 1)) return false;
    if (n->m_used_size != (full ? o.m_open_list.size : o.m_used_size + 1)) return false;
    if (g == k) return true;
    if (!full) return lfu_vw_same(og, ng);
    uint64_t lr = lfu_lost_rank(o, n);
    if (lr >= MAXCAP) return false;
    cstl_iter ln = lfu_cache__L0_at_rank(&o.P_L0, &o.m_open_list, lr);
    uint64_t  lk = lfu_key_of_node(&o, ln), lc = lfu_cnt_of_node(&o, ln);
    if (og.has && lc > og.cnt) return false; /* the victim's count is minimal */
    if (g == lk) return !ng.has;
    return lfu_vw_same(og, ng);
}
#endif
