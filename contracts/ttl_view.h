/* ttl_view.h -- view vocabulary shared by tlru_cache and utlru_cache (included after recency_base.h
 * with T_ = prefix macro).  exp(k): the deadline stored for k. */
#ifdef TLRU_CACHE_SPEC_H
#ifndef TLRU_TTL_VIEW
#define TLRU_TTL_VIEW
#define TV(x) tlru_##x
#define TV_C tlru_cache
#include "ttl_view_body.h"
#undef TV
#undef TV_C
#endif
#endif
#ifdef UTLRU_CACHE_SPEC_H
#ifndef UTLRU_TTL_VIEW
#define UTLRU_TTL_VIEW
#define TV(x) utlru_##x
#define TV_C utlru_cache
#include "ttl_view_body.h"
#undef TV
#undef TV_C
#endif
#endif
