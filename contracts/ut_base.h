/* ut_base.h -- X-include shared by ut_map and ut_set: a std::map key -> {[value,] ttl-list iterator} and a
 * std::list of {deadline, map iterator}, one node per entry, SORTED by deadline (the prefix purge relies on it).
 * No capacity: the bounded route bounds the number of stored entries by MAXCAP (a model bound; operations
 * that may add an entry require size < MAXCAP).  Parameters: UB (prefix), UB_C (struct), UBL/UBR (list/map
 * model names), UB_VALUES (defined for ut_map). */
#define UBF(x) CSTL_CAT(UB, CSTL_CAT(_, x))
#define UBLF(x) CSTL_CAT(UBL, x)
#define UBRF(x) CSTL_CAT(UBR, x)
#define UBL_pool CSTL_CAT(UBL, _pool)
#define UBR_pool CSTL_CAT(UBR, _pool)

static inline bool UBF(wf)(const UB_C *c)
{
    const UBL_pool *LP = &c->P_L0;
    const UBR_pool *RP = &c->P_R;
    uint64_t n = c->m_ttl_list.size;
    if (!(n <= MAXCAP && UBLF(_wf)(LP, &c->m_ttl_list) && UBLF(_pool_alive)(LP) == n + 1)) return false;
    if (!(c->m_keyed_elements.size == n && UBRF(_pool_alive)(RP) == n)) return false;
    cstl_iter it = LP->next[c->m_ttl_list.head];
    cstl_tp   prev = 0;
    for (uint64_t i = 0; i < MAXCAP; i++)
        if (i < n)
        {
            cstl_iter kp = LP->val[it].m_keyed_elements_position;
            if (!(kp < UBRF(_NP) && RP->alive[kp] && RP->kv[kp].second.m_ttl_position == it)) return false; /* back-pointers */
            if (i > 0 && prev > LP->val[it].m_expire_time) return false;                                     /* sorted by deadline */
            prev = LP->val[it].m_expire_time;
            it = LP->next[it];
        }
    for (cstl_iter a = 0; a < UBRF(_NP); a++)
        for (cstl_iter b = a + 1; b < UBRF(_NP); b++)
            if (RP->alive[a] && RP->alive[b] && RP->kv[a].first == RP->kv[b].first) return false;
    return true;
}
/* symmetry reduction: sentinel 0, node at rank i is node i+1 and its map entry is tree node i */
static inline bool UBF(canon)(const UB_C *c)
{
    if (c->m_ttl_list.head != 0) return false;
    cstl_iter it = c->P_L0.next[0];
    for (uint64_t i = 0; i < MAXCAP; i++)
        if (i < c->m_ttl_list.size)
        {
            if (it != i + 1 || c->P_L0.val[it].m_keyed_elements_position != i) return false;
            it = c->P_L0.next[it];
        }
    return true;
}
/* ---- view ---- */
static inline cstl_iter UBF(entry)(const UB_C *c, uint64_t k) { return UBRF(_find)(&c->P_R, &c->m_keyed_elements, k); }
static inline bool UBF(has)(const UB_C *c, uint64_t k) { return UBF(entry)(c, k) != UBRF(_END); }
static inline uint64_t UBF(size)(const UB_C *c) { return c->m_keyed_elements.size; }
static inline cstl_ms UBF(ttl)(const UB_C *c) { return c->m_uniform_ttl; }
static inline bool UBF(held)(const UB_C *c) { return c->m_lock.m_lock.held; }
static inline bool UBF(entry_live)(const UB_C *c, cstl_iter kp) { return kp < UBRF(_NP) && c->P_R.alive[kp]; }
static inline uint64_t UBF(entry_key)(const UB_C *c, cstl_iter kp) { return c->P_R.kv[kp < UBRF(_NP) ? kp : 0].first; }
typedef struct { bool has; uint64_t val; cstl_tp exp; } UBF(vw);
static inline UBF(vw) UBF(view)(const UB_C *c, uint64_t k)
{
    UBF(vw)   r;
    cstl_iter e = UBF(entry)(c, k);
    r.has = e != UBRF(_END);
#ifdef UB_VALUES
    r.val = r.has ? c->P_R.kv[e].second.m_value : 0;
#else
    r.val = 0;
#endif
    cstl_iter tp = r.has ? c->P_R.kv[e].second.m_ttl_position : 0;
    r.exp = r.has ? c->P_L0.val[tp < UBLF(_NP) ? tp : 0].m_expire_time : 0;
    return r;
}
static inline bool UBF(vw_same)(UBF(vw) a, UBF(vw) b) { return b.has == a.has && (!a.has || (b.val == a.val && b.exp == a.exp)); }
/* the view of g after the purge at `now` that opens every public operation (C17): expired entries are gone */
static inline UBF(vw) UBF(purged)(UBF(vw) a, cstl_tp now)
{
    if (a.has && now >= a.exp) { a.has = false; a.val = 0; a.exp = 0; }
    return a;
}
/* number of entries expired at `now` */
static inline uint64_t UBF(dead_count)(UB_C o, cstl_tp now)
{
    uint64_t  n = 0;
    cstl_iter it = o.P_L0.next[o.m_ttl_list.head];
    for (uint64_t i = 0; i < MAXCAP; i++)
        if (i < o.m_ttl_list.size)
        {
            if (now >= o.P_L0.val[it < UBLF(_NP) ? it : 0].m_expire_time) n++;
            it = o.P_L0.next[it < UBLF(_NP) ? it : 0];
        }
    return n;
}
/* the largest stored deadline is not after e (appending e keeps the list sorted) */
static inline bool UBF(deadline_ok)(const UB_C *c, cstl_tp e)
{
    for (cstl_iter n = 0; n < UBLF(_NP); n++)
        if (c->P_L0.alive[n] && !c->P_L0.sent[n] && c->P_L0.val[n].m_expire_time > e) return false;
    return true;
}
/* preconditions on time of the public operations (listed assumptions): the uniform TTL is the one duration
 * converted (G_MS), 0 <= ttl, now + ttl representable; steady_clock is monotone and the TTL constant, so no
 * stored deadline is after now + ttl */
static inline bool UBF(time_ok)(const UB_C *c, cstl_tp now)
{
    if (!(c->m_uniform_ttl == G_MS && G_MS >= 0 && G_MS <= INT64_MAX / 1000000)) return false;
    if (!(now >= 0 && now <= INT64_MAX - cstl_ms_to_ns(G_MS))) return false;
    return UBF(deadline_ok)(c, now + cstl_ms_to_ns(G_MS));
}
static inline cstl_tp UBF(deadline)(cstl_tp now) { return now + cstl_ms_to_ns(G_MS); }
static inline bool UBF(frame)(UB_C o, const UB_C *n)
{
    return o.m_uniform_ttl == n->m_uniform_ttl && o.m_lock.m_lock.held == n->m_lock.m_lock.held && o.m_lock.m_lock.acq == n->m_lock.m_lock.acq;
}
static inline bool UBF(frame_pub)(UB_C o, const UB_C *n)
{
    return o.m_uniform_ttl == n->m_uniform_ttl && !n->m_lock.m_lock.held && n->m_lock.m_lock.acq - 1 == o.m_lock.m_lock.acq && n->m_lock.m_lock.acq != 0;
}
/* ---- helper-level postconditions (no purge) ---- */
static inline bool UBF(noop_all)(UB_C o, const UB_C *n, uint64_t k, uint64_t g)
{
    return UBF(vw_same)(UBF(view)(&o, g), UBF(view)(n, g)) && UBF(vw_same)(UBF(view)(&o, k), UBF(view)(n, k)) && UBF(size)(n) == UBF(size)(&o);
}
static inline bool UBF(del_all)(UB_C o, const UB_C *n, uint64_t k, uint64_t g)
{
    if (UBF(has)(n, k) || UBF(size)(n) + 1 != UBF(size)(&o)) return false;
    return g == k || UBF(vw_same)(UBF(view)(&o, g), UBF(view)(n, g));
}
/* after WRITE (insert when k absent, update when resident) of k with value v and deadline e */
static inline bool UBF(put_all)(UB_C o, const UB_C *n, uint64_t k, uint64_t v, cstl_tp e, uint64_t g)
{
    UBF(vw) nk = UBF(view)(n, k);
    if (!(nk.has && nk.val == v && nk.exp == e)) return false;
    if (UBF(size)(n) != UBF(size)(&o) + (UBF(has)(&o, k) ? 0 : 1)) return false;
    return g == k || UBF(vw_same)(UBF(view)(&o, g), UBF(view)(n, g));
}
/* ---- public-operation postconditions: first the purge at `now`, then the operation ---- */
static inline bool UBF(p_has)(UB_C o, uint64_t k, cstl_tp now) { return UBF(purged)(UBF(view)(&o, k), now).has; }
static inline bool UBF(p_noop)(UB_C o, const UB_C *n, cstl_tp now, uint64_t k, uint64_t g)
{
    return UBF(vw_same)(UBF(purged)(UBF(view)(&o, g), now), UBF(view)(n, g)) && UBF(vw_same)(UBF(purged)(UBF(view)(&o, k), now), UBF(view)(n, k))
           && UBF(size)(n) + UBF(dead_count)(o, now) == UBF(size)(&o);
}
static inline bool UBF(p_del)(UB_C o, const UB_C *n, cstl_tp now, uint64_t k, uint64_t g)
{
    if (UBF(has)(n, k) || UBF(size)(n) + UBF(dead_count)(o, now) + 1 != UBF(size)(&o)) return false;
    return g == k || UBF(vw_same)(UBF(purged)(UBF(view)(&o, g), now), UBF(view)(n, g));
}
static inline bool UBF(p_put)(UB_C o, const UB_C *n, cstl_tp now, uint64_t k, uint64_t v, uint64_t g)
{
    UBF(vw) nk = UBF(view)(n, k);
    if (!(nk.has && nk.val == v && nk.exp == UBF(deadline)(now))) return false;
    if (UBF(size)(n) + UBF(dead_count)(o, now) != UBF(size)(&o) + (UBF(p_has)(o, k, now) ? 0 : 1)) return false;
    return g == k || UBF(vw_same)(UBF(purged)(UBF(view)(&o, g), now), UBF(view)(n, g));
}
/* C02 for ut_map/ut_set: immediately after the call every stored entry is live, so size() == number of live keys */
static inline bool UBF(all_live)(const UB_C *n, cstl_tp now, uint64_t g) { UBF(vw) v = UBF(view)(n, g); return !v.has || now < v.exp; }
static inline bool UBF(view_eq)(const UB_C *a, const UB_C *b, uint64_t g) { return UBF(vw_same)(UBF(view)(a, g), UBF(view)(b, g)); }
static inline cstl_ms UBF(view_ttl_o)(UB_C o) { return o.m_uniform_ttl; }
static inline uint64_t UBF(acq_o)(UB_C o) { return o.m_lock.m_lock.acq; }
static inline bool UBF(has_o)(UB_C o, uint64_t k) { return UBF(has)(&o, k); }
static inline UBF(vw) UBF(view_o)(UB_C o, uint64_t k) { return UBF(view)(&o, k); }
static inline uint64_t UBF(size_o)(UB_C o) { return UBF(size)(&o); }
static inline uint64_t UBF(entry_key_o)(UB_C o, cstl_iter kp) { return UBF(entry_key)(&o, kp); }

#undef UBF
#undef UBLF
#undef UBRF
#undef UBL_pool
#undef UBR_pool
