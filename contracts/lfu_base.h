/* lfu_base.h -- X-include shared by lfu_cache and lfuda_cache: a pre-allocated list of
 * {index iterator, multimap iterator, [age,] value} nodes whose first m_used_size nodes are the entries,
 * a hash index key -> node and a multimap use count -> node.
 * Parameters: LB (prefix), LB_C (struct), LBL/LBH/LBR (list/hash/multimap model names), LB_E (element),
 * LB_LIST (the list member), LB_AGED (defined for lfuda). */
#define LBF(x) CSTL_CAT(LB, CSTL_CAT(_, x))
#define LBLF(x) CSTL_CAT(LBL, x)
#define LBHF(x) CSTL_CAT(LBH, x)
#define LBRF(x) CSTL_CAT(LBR, x)
#define LBL_pool CSTL_CAT(LBL, _pool)
#define LBH_pool CSTL_CAT(LBH, _pool)
#define LBR_pool CSTL_CAT(LBR, _pool)

static inline bool LBF(wf_base)(const LB_C *c)
{
    const LBL_pool *LP = &c->P_L0;
    const LBH_pool *HP = &c->P_H;
    const LBR_pool *RP = &c->P_R;
    uint64_t cap = c->LB_LIST.size, used = c->m_used_size;
    if (!(cap >= 1 && cap <= MAXCAP && used <= cap)) return false;
    if (!(LBLF(_wf)(LP, &c->LB_LIST) && LBLF(_pool_alive)(LP) == cap + 1)) return false;
    if (!(c->m_keyed_elements.size == used && c->m_keyed_elements.reserved >= cap && LBHF(_pool_alive)(HP) == used)) return false;
    if (!(c->m_lfu_list.size == used && LBRF(_pool_alive)(RP) == used)) return false;
    cstl_iter it = LP->next[c->LB_LIST.head];
    for (uint64_t i = 0; i < MAXCAP; i++)
        if (i < cap)
        {
            if (i == used && c->m_open_list_end != it) return false;
            if (i < used)
            {
                const LB_E *e = &LP->val[it];
                cstl_iter kp = e->m_keyed_position, fp = e->m_lfu_position;
                if (!(kp < LBHF(_NP) && HP->alive[kp] && HP->kv[kp].second == it)) return false;
                if (!(fp < LBRF(_NP) && RP->alive[fp] && RP->kv[fp].second == it)) return false;
            }
            it = LP->next[it];
        }
    if (used == cap && c->m_open_list_end != c->LB_LIST.head) return false;
    for (cstl_iter a = 0; a < LBHF(_NP); a++)
        for (cstl_iter b = a + 1; b < LBHF(_NP); b++)
            if (HP->alive[a] && HP->alive[b] && HP->kv[a].first == HP->kv[b].first) return false;
    return true;
}
/* symmetry reduction: sentinel 0, node at rank i is node i+1, its index entry is hash node i, its count entry multimap node i */
static inline bool LBF(canon)(const LB_C *c)
{
    if (c->LB_LIST.head != 0) return false;
    cstl_iter it = c->P_L0.next[0];
    for (uint64_t i = 0; i < MAXCAP; i++)
        if (i < c->LB_LIST.size)
        {
            if (it != i + 1) return false;
            if (i < c->m_used_size && (c->P_L0.val[it].m_keyed_position != i || c->P_L0.val[it].m_lfu_position != i)) return false;
            it = c->P_L0.next[it];
        }
    return true;
}
/* ---- view ---- */
static inline cstl_iter LBF(node)(const LB_C *c, uint64_t k)
{
    cstl_iter n = LBHF(_find)(&c->P_H, &c->m_keyed_elements, k);
    return n == LBHF(_END) ? LBLF(_NP) : c->P_H.kv[n].second;
}
static inline bool LBF(has)(const LB_C *c, uint64_t k) { return LBHF(_find)(&c->P_H, &c->m_keyed_elements, k) != LBHF(_END); }
static inline uint64_t LBF(size)(const LB_C *c) { return c->m_used_size; }
static inline uint64_t LBF(cap)(const LB_C *c) { return c->LB_LIST.size; }
static inline bool LBF(held)(const LB_C *c) { return c->m_lock.m_lock.held; }
static inline bool LBF(full)(const LB_C *c) { return c->m_used_size >= c->LB_LIST.size; }
static inline bool LBF(entry_live)(const LB_C *c, cstl_iter kp) { return kp < LBHF(_NP) && c->P_H.alive[kp]; }
static inline uint64_t LBF(entry_key)(const LB_C *c, cstl_iter kp) { return c->P_H.kv[kp < LBHF(_NP) ? kp : 0].first; }
static inline bool LBF(node_used)(const LB_C *c, cstl_iter n)
{
    return n < LBLF(_NP) && c->P_L0.alive[n] && !c->P_L0.sent[n] && LBLF(_rank)(&c->P_L0, &c->LB_LIST, n) < c->m_used_size;
}
static inline uint64_t LBF(key_of_node)(const LB_C *c, cstl_iter n)
{
    cstl_iter kp = c->P_L0.val[n < LBLF(_NP) ? n : 0].m_keyed_position;
    return c->P_H.kv[kp < LBHF(_NP) ? kp : 0].first;
}
static inline uint64_t LBF(cnt_of_node)(const LB_C *c, cstl_iter n)
{
    cstl_iter fp = c->P_L0.val[n < LBLF(_NP) ? n : 0].m_lfu_position;
    return c->P_R.kv[fp < LBRF(_NP) ? fp : 0].first;
}
/* the view of one key */
typedef struct { bool has; uint64_t val; uint64_t cnt; cstl_tp age; uint64_t rank; } LBF(vw);
static inline LBF(vw) LBF(view)(const LB_C *c, uint64_t k)
{
    LBF(vw)   r;
    cstl_iter n = LBF(node)(c, k);
    r.has = n < LBLF(_NP);
    r.val = r.has ? c->P_L0.val[n].m_value : 0;
    r.cnt = r.has ? LBF(cnt_of_node)(c, n) : 0;
#ifdef LB_AGED
    r.age = r.has ? c->P_L0.val[n].m_dynamic_age : 0;
    r.rank = r.has ? LBLF(_rank)(&c->P_L0, &c->LB_LIST, n) : SPEC_NONE;
#else
    r.age = 0;
    r.rank = 0; /* the position inside the used part is not part of lfu_cache's view */
#endif
    return r;
}
static inline bool LBF(vw_same)(LBF(vw) a, LBF(vw) b) { return b.has == a.has && (!a.has || (b.val == a.val && b.cnt == a.cnt && b.age == a.age)); }
static inline bool LBF(frame)(LB_C o, const LB_C *n)
{
    return o.LB_LIST.size == n->LB_LIST.size && n->m_keyed_elements.reserved >= n->LB_LIST.size
           && o.m_lock.m_lock.held == n->m_lock.m_lock.held && o.m_lock.m_lock.acq == n->m_lock.m_lock.acq LB_FRAME_EXTRA_;
}
static inline bool LBF(frame_pub)(LB_C o, const LB_C *n)
{
    return o.LB_LIST.size == n->LB_LIST.size && n->m_keyed_elements.reserved >= n->LB_LIST.size
           && !n->m_lock.m_lock.held && n->m_lock.m_lock.acq - 1 == o.m_lock.m_lock.acq && n->m_lock.m_lock.acq != 0 LB_FRAME_EXTRA_;
}
static inline bool LBF(noop_all)(LB_C o, const LB_C *n, uint64_t k, uint64_t g)
{
    return LBF(vw_same)(LBF(view)(&o, g), LBF(view)(n, g)) && LBF(vw_same)(LBF(view)(&o, k), LBF(view)(n, k)) && n->m_used_size == o.m_used_size;
}
/* rank (in o) of the first entry of o whose key is not in n; MAXCAP if none */
static inline uint64_t LBF(lost_rank)(LB_C o, const LB_C *n)
{
    cstl_iter it = o.P_L0.next[o.LB_LIST.head];
    for (uint64_t r = 0; r < MAXCAP; r++)
        if (r < o.m_used_size)
        {
            if (!LBF(has)(n, LBF(key_of_node)(&o, it))) return r;
            it = o.P_L0.next[it < LBLF(_NP) ? it : 0];
        }
    return MAXCAP;
}
static inline bool LBF(view_eq)(const LB_C *a, const LB_C *b, uint64_t g) { return LBF(vw_same)(LBF(view)(a, g), LBF(view)(b, g)); }
static inline bool LBF(has_o)(LB_C o, uint64_t k) { return LBF(has)(&o, k); }
static inline uint64_t LBF(cap_o)(LB_C o) { return LBF(cap)(&o); }
static inline uint64_t LBF(key_of_node_o)(LB_C o, cstl_iter n) { return LBF(key_of_node)(&o, n); }
static inline uint64_t LBF(entry_key_o)(LB_C o, cstl_iter kp) { return LBF(entry_key)(&o, kp); }
static inline LBF(vw) LBF(view_o)(LB_C o, uint64_t k) { return LBF(view)(&o, k); }
