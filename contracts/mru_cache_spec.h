/* mru_cache_spec.h -- as lru_cache_spec.h; rank 0 of the list is the OLDEST use, the newest is last */
#ifndef MRU_CACHE_SPEC_H
#define MRU_CACHE_SPEC_H
#include "mru_cache.h"
#include "spec_common.h"
#define RB mru
#define RB_C mru_cache
#define RBL mru_cache__L0
#define RBH mru_cache__H
#define RB_E mru_cache__element
#define RB_LIST m_mru_list
#define RB_END m_mru_end
#define RB_POS m_mru_position
#define RB_MRU
#include "recency_base.h"
static inline bool mru_wf(const mru_cache *c) { return mru_wf_base(c); }
/* the whole view of key g is the same in two states (C18 relational harnesses) */
static inline bool mru_view_eq(const mru_cache *a, const mru_cache *b, uint64_t g)
{
    return mru_has(a, g) == mru_has(b, g) && (!mru_has(a, g) || mru_val(a, g) == mru_val(b, g)) && mru_ord(a, g) == mru_ord(b, g);
}
#endif
