/* mru_cache_spec.h -- as lru_cache_spec.h; rank 0 of the list is the OLDEST use, the newest is last */
#ifndef MRU_CACHE_SPEC_H
#define MRU_CACHE_SPEC_H
#include "mru_cache.h"
#include "spec_common.h"
#define RB mru
#define RB_C mru_cache
#define RBL mru_cache__L0
#define RBH mru_cache__H
#define RB_E mru_cache__element
#define RB_LIST m_mru_list
#define RB_END m_mru_end
#define RB_POS m_mru_position
#define RB_MRU
#include "recency_base.h"
static inline bool mru_wf(const mru_cache *c) { return mru_wf_base(c); }
#endif
