/* rr_cache_spec.h -- representation invariant and abstract view of rr_cache: a vector of slots, a hash
 * index key -> slot, and the open list: a vector holding a permutation of the slot numbers whose first
 * m_open_list_end entries are the used slots. */
#ifndef RR_CACHE_SPEC_H
#define RR_CACHE_SPEC_H
#include "rr_cache.h"
#include "spec_common.h"

static inline bool rr_wf(const rr_cache *c)
{
    const rr_cache__H_pool *HP = &c->P_H;
    uint64_t cap = c->m_elements.size, end = c->m_open_list_end;
    if (!(cap >= 1 && cap <= MAXCAP && end <= cap && c->m_open_list.size == cap)) return false;
    if (!(c->m_keyed_elements.size == end && c->m_keyed_elements.reserved >= cap && rr_cache__H_pool_alive(HP) == end)) return false;
    bool seen[MAXCAP] = {0};
    for (uint64_t i = 0; i < MAXCAP; i++)
        if (i < cap)
        {
            uint64_t s = c->m_open_list.data[i];
            if (!(s < cap) || seen[s]) return false; /* permutation of the slot numbers */
            seen[s] = true;
            if (i < end)
            {
                const rr_cache__element *e = &c->m_elements.data[s];
                cstl_iter kp = e->m_keyed_position;
                if (e->m_open_list_position != i) return false; /* back-pointer into the open list */
                if (!(kp < rr_cache__H_NP && HP->alive[kp] && HP->kv[kp].second == s)) return false;
            }
        }
    for (cstl_iter a = 0; a < rr_cache__H_NP; a++)
        for (cstl_iter b = a + 1; b < rr_cache__H_NP; b++)
            if (HP->alive[a] && HP->alive[b] && HP->kv[a].first == HP->kv[b].first) return false;
    return true;
}
/* symmetry reduction: the index entry of the slot at open-list position i is hash node i */
static inline bool rr_canon(const rr_cache *c)
{
    for (uint64_t i = 0; i < MAXCAP; i++)
        if (i < c->m_open_list_end)
        {
            uint64_t s = c->m_open_list.data[i];
            if (c->m_elements.data[s < MAXCAP ? s : 0].m_keyed_position != i) return false;
        }
    return true;
}
/* ---- view ---- */
static inline bool rr_has(const rr_cache *c, uint64_t k) { return rr_cache__H_find(&c->P_H, &c->m_keyed_elements, k) != rr_cache__H_END; }
static inline uint64_t rr_slot(const rr_cache *c, uint64_t k)
{
    cstl_iter n = rr_cache__H_find(&c->P_H, &c->m_keyed_elements, k);
    return n == rr_cache__H_END ? MAXCAP : c->P_H.kv[n].second;
}
static inline uint64_t rr_val(const rr_cache *c, uint64_t k)
{
    uint64_t s = rr_slot(c, k);
    return s < MAXCAP ? c->m_elements.data[s].m_value : 0;
}
static inline uint64_t rr_size(const rr_cache *c) { return c->m_open_list_end; }
static inline uint64_t rr_cap(const rr_cache *c) { return c->m_elements.size; }
static inline bool rr_held(const rr_cache *c) { return c->m_lock.m_lock.held; }
static inline bool rr_full(const rr_cache *c) { return c->m_open_list_end >= c->m_elements.size; }
static inline bool rr_slot_used(const rr_cache *c, uint64_t idx)
{
    if (!(idx < c->m_elements.size)) return false;
    uint64_t p = c->m_elements.data[idx].m_open_list_position;
    return p < c->m_open_list_end && c->m_open_list.data[p < MAXCAP ? p : 0] == idx;
}
static inline uint64_t rr_key_of_slot(const rr_cache *c, uint64_t idx)
{
    cstl_iter kp = c->m_elements.data[idx < MAXCAP ? idx : 0].m_keyed_position;
    return c->P_H.kv[kp < rr_cache__H_NP ? kp : 0].first;
}
static inline bool rr_entry_live(const rr_cache *c, cstl_iter kp) { return kp < rr_cache__H_NP && c->P_H.alive[kp]; }
static inline uint64_t rr_entry_key(const rr_cache *c, cstl_iter kp) { return c->P_H.kv[kp < rr_cache__H_NP ? kp : 0].first; }
/* ---- postcondition vocabulary ---- */
static inline bool rr_frame(rr_cache o, const rr_cache *n)
{
    return o.m_elements.size == n->m_elements.size && n->m_keyed_elements.reserved >= n->m_elements.size
           && o.m_lock.m_lock.held == n->m_lock.m_lock.held && o.m_lock.m_lock.acq == n->m_lock.m_lock.acq;
}
static inline bool rr_frame_pub(rr_cache o, const rr_cache *n)
{
    return o.m_elements.size == n->m_elements.size && n->m_keyed_elements.reserved >= n->m_elements.size
           && !n->m_lock.m_lock.held && n->m_lock.m_lock.acq - 1 == o.m_lock.m_lock.acq && n->m_lock.m_lock.acq != 0;
}
static inline bool rr_kept(rr_cache o, const rr_cache *n, uint64_t g)
{
    return rr_has(n, g) == rr_has(&o, g) && (!rr_has(&o, g) || rr_val(n, g) == rr_val(&o, g));
}
static inline bool rr_size_same(rr_cache o, const rr_cache *n) { return n->m_open_list_end == o.m_open_list_end; }
static inline bool rr_noop_all(rr_cache o, const rr_cache *n, uint64_t k, uint64_t g) { return rr_kept(o, n, g) && rr_kept(o, n, k) && rr_size_same(o, n); }
/* after ERASE of resident key k */
static inline bool rr_del_all(rr_cache o, const rr_cache *n, uint64_t k, uint64_t g)
{
    return !rr_has(n, k) && (g == k || rr_kept(o, n, g)) && n->m_open_list_end + 1 == o.m_open_list_end;
}
/* after UPDATE of resident key k */
static inline bool rr_upd_all(rr_cache o, const rr_cache *n, uint64_t k, uint64_t v, uint64_t g)
{
    return rr_has(n, k) && rr_val(n, k) == v && (g == k || rr_kept(o, n, g)) && rr_size_same(o, n);
}
/* after INSERT of new key k (random outcome r when full): C03 one victim, C15 the victim is the resident in
 * slot r -- a prior resident, never k (k was absent), and distinct outcomes give distinct victims because the
 * slots of a full cache hold pairwise distinct keys (wf) */
static inline bool rr_ins_all(rr_cache o, const rr_cache *n, uint64_t k, uint64_t v, uint64_t r, uint64_t g)
{
    bool full = rr_full(&o);
    if (!(rr_has(n, k) && rr_val(n, k) == v)) return false;
    if (n->m_open_list_end != (full ? o.m_elements.size : o.m_open_list_end + 1)) return false;
    if (g == k) return true;
    if (full)
    {
        if (!(r < o.m_elements.size && rr_slot_used(&o, r))) return false;
        uint64_t victim = rr_key_of_slot(&o, r);
        if (!rr_has(&o, victim) || rr_has(n, victim)) return false;
        if (g == victim) return true;
    }
    return rr_kept(o, n, g);
}
static inline bool rr_has_o(rr_cache o, uint64_t k) { return rr_has(&o, k); }
static inline uint64_t rr_val_o(rr_cache o, uint64_t k) { return rr_val(&o, k); }
static inline uint64_t rr_size_o(rr_cache o) { return rr_size(&o); }
static inline uint64_t rr_cap_o(rr_cache o) { return rr_cap(&o); }
static inline uint64_t rr_key_of_slot_o(rr_cache o, uint64_t idx) { return rr_key_of_slot(&o, idx); }
static inline uint64_t rr_entry_key_o(rr_cache o, cstl_iter kp) { return rr_entry_key(&o, kp); }
static inline bool rr_view_eq(const rr_cache *a, const rr_cache *b, uint64_t g)
{
    return rr_has(a, g) == rr_has(b, g) && (!rr_has(a, g) || rr_val(a, g) == rr_val(b, g));
}
#endif
