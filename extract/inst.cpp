// Explicit instantiations handed to clang for the typed AST (extract/ast2c.py).
// key_type = value_type = uint64_t; ranges are std::vector of the documented element shapes.
#include <chrono>
#include <cstdint>
#include <optional>
#include <tuple>
#include <utility>
#include <vector>
#include "cappuccino/cappuccino.hpp"
using K  = uint64_t;
using V  = uint64_t;
using KS = std::vector<K>;
using KV = std::vector<std::pair<K, V>>;
using KO = std::vector<std::pair<K, std::optional<V>>>;
using T3 = std::vector<std::tuple<std::chrono::milliseconds, K, V>>;
using KB = std::vector<std::pair<K, bool>>;
using RO = std::vector<std::pair<K, std::optional<V>>>;
namespace cappuccino {

#define RANGES(C, TS, KVT)                                                      \
    template size_t C<K, V, TS>::insert_range<KVT&>(KVT&, allow);               \
    template size_t C<K, V, TS>::erase_range<KS>(const KS&);
#define FINDS_PEEK(C, TS, PT)                                                   \
    template RO     C<K, V, TS>::find_range<KS>(const KS&, PT);                 \
    template void   C<K, V, TS>::find_range_fill<KO>(KO&, PT);
#define FINDS(C, TS)                                                            \
    template RO     C<K, V, TS>::find_range<KS>(const KS&);                     \
    template void   C<K, V, TS>::find_range_fill<KO>(KO&);

#define ALL(TS)                                                                 \
    template class lru_cache<K, V, TS>;   RANGES(lru_cache, TS, KV)   FINDS_PEEK(lru_cache, TS, peek)   \
    template class mru_cache<K, V, TS>;   RANGES(mru_cache, TS, KV)   FINDS_PEEK(mru_cache, TS, peek)   \
    template class tlru_cache<K, V, TS>;  RANGES(tlru_cache, TS, T3)  FINDS_PEEK(tlru_cache, TS, peek)  \
    template class utlru_cache<K, V, TS>; RANGES(utlru_cache, TS, KV) FINDS_PEEK(utlru_cache, TS, peek) \
    template class lfu_cache<K, V, TS>;   RANGES(lfu_cache, TS, KV)   FINDS_PEEK(lfu_cache, TS, bool)   \
    template class lfuda_cache<K, V, TS>; RANGES(lfuda_cache, TS, KV) FINDS_PEEK(lfuda_cache, TS, bool) \
    template class rr_cache<K, V, TS>;    RANGES(rr_cache, TS, KV)    FINDS(rr_cache, TS)               \
    template class ut_map<K, V, TS>;      RANGES(ut_map, TS, KV)      FINDS(ut_map, TS)                 \
    template class fifo_cache<K, V, TS>;  RANGES(fifo_cache, TS, KV)  FINDS(fifo_cache, TS)             \
    template size_t fifo_cache<K, V, TS>::insert<KV::iterator>(KV::iterator, KV::iterator, allow);      \
    template size_t fifo_cache<K, V, TS>::erase<KS::const_iterator>(KS::const_iterator, KS::const_iterator); \
    template RO     fifo_cache<K, V, TS>::find<KS::const_iterator>(KS::const_iterator, KS::const_iterator, size_t); \
    template void   fifo_cache<K, V, TS>::find_range_fill<KO::iterator>(KO::iterator, KO::iterator);

ALL(thread_safe::yes)
#ifdef EXTRACT_NOTS
ALL(thread_safe::no)
#endif

// ut_set has no value_type
#define UTSET(TS)                                                               \
    template class ut_set<K, TS>;                                               \
    template size_t ut_set<K, TS>::insert_range<KS&>(KS&, allow);               \
    template size_t ut_set<K, TS>::erase_range<KS>(const KS&);          \
    template std::vector<std::pair<K, bool>> ut_set<K, TS>::find_range<KS>(const KS&); \
    template void ut_set<K, TS>::find_range_fill<KB>(KB&);
UTSET(thread_safe::yes)
#ifdef EXTRACT_NOTS
UTSET(thread_safe::no)
#endif
} // namespace cappuccino
