#!/usr/bin/env python3
"""ast2c.py -- mechanical extraction of libcappuccino's member functions to C.

Front end: clang's typed JSON AST of explicit instantiations of the class templates in /repo/inc
(key_type = value_type = uint64_t).  Back end: one C function per member function, statement by
statement, expression by expression, over the C contracts of the std:: components in /verif/cstl.

Every AST node kind and every std:: operation has exactly one rule below; anything without a rule
raises Abort (the caller exits 2: "extraction break", never a violation, never a silent skip).
"""
import json, re, sys, os


class Abort(Exception):
    pass


def abort(msg, node=None):
    where = ''
    if node is not None:
        r = node.get('range', {}).get('begin', {})
        where = ' at line %s col %s' % (r.get('line', r.get('spellingLoc', {}).get('line', '?')), r.get('col', '?'))
        where += ' [%s]' % node.get('kind')
    raise Abort(msg + where)


# ------------------------------------------------------------------------------------------------
# loading


def load_objs(path):
    dec = json.JSONDecoder()
    s = open(path).read()
    i = 0
    objs = []
    n = len(s)
    while i < n:
        while i < n and s[i].isspace():
            i += 1
        if i >= n:
            break
        o, j = dec.raw_decode(s, i)
        objs.append(o)
        i = j
    return objs


# ------------------------------------------------------------------------------------------------
# C++ type strings -> classification


def split_targs(s):
    """'a<b,c>, d' -> ['a<b,c>', 'd'] (bracket aware)"""
    out, depth, cur = [], 0, ''
    for ch in s:
        if ch in '<(':
            depth += 1
        elif ch in '>)':
            depth -= 1
        if ch == ',' and depth == 0:
            out.append(cur.strip())
            cur = ''
        else:
            cur += ch
    if cur.strip():
        out.append(cur.strip())
    return out


def parse_tmpl(t):
    """'std::list<unsigned long>' -> ('std::list', ['unsigned long']); non-template -> (t, None)"""
    i = t.find('<')
    if i < 0 or not t.endswith('>'):
        return t, None
    # make sure the closing '>' matches the first '<'
    depth = 0
    for j, ch in enumerate(t):
        if ch == '<':
            depth += 1
        elif ch == '>':
            depth -= 1
            if depth == 0 and j != len(t) - 1:
                return t, None
    return t[:i], split_targs(t[i + 1:-1])


# contracts of the std::chrono operations the pinned tree does not use (time_point - time_point, time_point + nanoseconds,
# duration_cast<milliseconds>); emitted into the generated C of a container only when its code uses them, so that the text
# generated from the pinned tree (and with it every cached result) does not depend on them
CHRONO_EXTRA = r"""
#ifndef CSTL_CHRONO_EXTRA
#define CSTL_CHRONO_EXTRA
int64_t nondet_i64(void);
static inline cstl_tp cstl_tp_add_ns(cstl_tp t, int64_t dn)
{
    CSTL_ASSERT(!((dn > 0 && t > INT64_MAX - dn) || (dn < 0 && t < INT64_MIN - dn)), "std.chrono: time_point + duration overflows [C08]");
    return t + dn;
}
static inline int64_t cstl_tp_diff(cstl_tp a, cstl_tp b)
{
    CSTL_ASSERT(!((b < 0 && a > INT64_MAX + b) || (b > 0 && a < INT64_MIN + b)), "std.chrono: time_point - time_point overflows [C08]");
    return a - b;
}
/* duration_cast<milliseconds>(nanoseconds): truncation toward zero.  Under CBMC the ms->ns conversion is abstract (one
 * pair G_MS |-> G_NS of a strictly monotone map), so the inverse is known only relative to that pair: a duration of at
 * least G_NS gives at least G_MS, a shorter one gives less, G_NS itself gives G_MS (over-approximation elsewhere). */
#ifdef CSTL_CBMC
static inline cstl_ms cstl_ns_to_ms(int64_t x)
{
    CSTL_ASSERT(G_MS >= 0 && x > INT64_MIN, "model bound: the abstract conversion pair is non-negative");
    CSTL_ASSUME((G_MS > 0) == (G_NS > 0) && G_NS >= G_MS);
    /* truncation toward zero: |result| is the floor of |x| / 10^6 with the sign of x */
    int64_t ax = x < 0 ? -x : x;
    cstl_ms ar = nondet_i64();
    CSTL_ASSUME(ar >= 0 && ar <= ax);
    CSTL_ASSUME(ax >= G_NS ? ar >= G_MS : ar < G_MS);
    CSTL_ASSUME(ax != G_NS || ar == G_MS);
    return x < 0 ? -ar : ar;
}
#else
static inline cstl_ms cstl_ns_to_ms(int64_t x) { return x / 1000000; }
#endif
#endif

"""


# std::vector::back() of the output vector of find_range (the abstract vector keeps its last element): emitted on demand
OUTVEC_EXTRA = r"""
#ifndef CSTL_OUTVEC_EXTRA
#define CSTL_OUTVEC_EXTRA
static inline cstl_pair_kopt *cstl_outvec_back(cstl_outvec *o)
{
    CSTL_ASSERT(o->size > 0, "std.vector.back: vector not empty [C08]");
    return &o->last;
}
static inline cstl_pair_kb *cstl_outvec_kb_back(cstl_outvec_kb *o)
{
    CSTL_ASSERT(o->size > 0, "std.vector.back: vector not empty [C08]");
    return &o->last;
}
#endif

"""


def balanced(x):
    """parentheses of x are balanced and never close below the start"""
    d = 0
    for ch in x:
        if ch == '(':
            d += 1
        elif ch == ')':
            d -= 1
            if d < 0:
                return False
    return d == 0


def strip_cvref(t):
    t = t.strip()
    isref = False
    isrref = False
    if t.endswith('&&'):
        isrref = True
        t = t[:-2].strip()
    elif t.endswith('&'):
        isref = True
        t = t[:-1].strip()
    isconst = False
    while True:
        if t.startswith('const '):
            isconst = True
            t = t[6:].strip()
        elif t.endswith(' const'):
            isconst = True
            t = t[:-6].strip()
        else:
            break
    return t, isref, isrref, isconst


U64 = {'unsigned long', 'size_t', 'std::size_t', 'uint64_t', 'unsigned long long', 'unsigned long long int',
       'unsigned long int'}


class T:
    """classified type"""

    def __init__(self, k, c, **kw):
        self.k = k  # kind
        self.c = c  # C type
        self.__dict__.update(kw)

    def __repr__(self):
        return 'T(%s,%s)' % (self.k, self.c)


class Types:
    def __init__(self, cls=None):
        self.cls = cls  # ClassCtx or None

    def classify(self, tstr):
        t, isref, isrref, isconst = strip_cvref(tstr)
        r = self._cl(t)
        r.isref, r.isrref, r.isconst = isref, isrref, isconst
        r.src = tstr
        return r

    def _cl(self, t):
        t = t.strip()
        t = re.sub(r'^typename ', '', t)
        # libstdc++ spells a container's reference type through its allocator traits (list::front(), vector::back(), ...)
        m = re.match(r'^__gnu_cxx::__alloc_traits<std::allocator<(.+)>, (.+)>::value_type$', t)
        if m and m.group(1).strip() == m.group(2).strip():
            t = m.group(1).strip()
        if t in U64:
            return T('u64', 'uint64_t')
        if t in ('long', 'long int', 'int64_t'):
            return T('i64', 'int64_t')
        if t == 'int':
            return T('int', 'int')
        if t in ('bool', '_Bool'):
            return T('bool', 'bool')
        if t == 'float':
            return T('float', 'float')
        if t == 'double':
            return T('double', 'double')
        if t == 'void':
            return T('void', 'void')
        if t == 'cappuccino::allow':
            return T('u64', 'uint64_t', enum='allow')
        if t == 'cappuccino::peek':
            return T('int', 'int', enum='peek')
        if t == 'cappuccino::thread_safe':
            return T('int', 'int', enum='thread_safe')
        if t == 'std::nullopt_t':
            return T('nullopt', None)
        name, args = parse_tmpl(t)
        name = re.sub(r'^std::chrono::_V2::', 'std::chrono::', name)
        if name in ('std::chrono::time_point', 'time_point'):
            if not re.search(r'ratio<1, 1000000000>', t):
                abort('time_point with unexpected period: ' + t)
            return T('tp', 'cstl_tp')
        if name in ('std::chrono::duration', 'duration'):
            if args[0] != 'long':
                abort('duration rep: ' + t)
            if re.fullmatch(r'(std::)?ratio<1, 1000>', args[1]):
                return T('ms', 'cstl_ms')
            if re.fullmatch(r'(std::)?ratio<1, 1000000000>', args[1]):
                return T('ns', 'int64_t')
            abort('duration period without a rule: ' + t)
        if name == 'std::optional':
            inner = self._cl(strip_cvref(args[0])[0])
            if inner.k in ('u64', 'iter'):
                return T('opt', 'cstl_opt', inner=inner)
            if inner.k == 'pair':
                return T('optpair', 'cstl_opt_pair', inner=inner)
            abort('optional payload without a rule: ' + t)
        if name == 'std::pair':
            a = self._cl(strip_cvref(args[0])[0])
            b = self._cl(strip_cvref(args[1])[0])
            if args[0].startswith('const ') and self.cls is not None:
                # value_type of an associative container of this class
                for m in self.cls.models:
                    if m.kind in ('hash', 'map', 'mmap') and m.kt.c == a.c and m.vt.c == b.c:
                        return T('mapnode', m.name + '_node', model=m)
                abort('pair<const K,V> that is no map node of this class: ' + t)
            if a.k == 'u64' and b.k == 'u64':
                return T('pair', 'cstl_pair')
            if a.k == 'u64' and b.k == 'opt':
                return T('pairkopt', 'cstl_pair_kopt')
            if a.k == 'u64' and b.k == 'bool':
                return T('pairkb', 'cstl_pair_kb')
            if a.k == 'iter' and b.k == 'bool':
                return T('emplres', 'cstl_emplace_result', iter=a)
            abort('pair without a rule: ' + t)
        if name == 'std::tuple':
            ks = [self._cl(strip_cvref(x)[0]).k for x in args]
            if ks == ['ms', 'u64', 'u64']:
                return T('tuple3', 'cstl_tuple3')
            abort('tuple without a rule: ' + t)
        if name in ('std::_List_iterator', 'std::_List_const_iterator'):
            el = self._cl(strip_cvref(args[0])[0])
            return T('iter', 'cstl_iter', fam='list', elem=el)
        if name in ('std::__detail::_Node_iterator', 'std::__detail::_Node_const_iterator', 'std::__detail::_Node_iterator_base'):
            return T('iter', 'cstl_iter', fam='hash')
        if name in ('std::_Rb_tree_iterator', 'std::_Rb_tree_const_iterator'):
            return T('iter', 'cstl_iter', fam='tree')
        if name == '__gnu_cxx::__normal_iterator':
            p = args[0].strip()
            assert p.endswith('*'), t
            el = self._cl(strip_cvref(p[:-1])[0])
            return T('ptr', el.c + ' *', elem=el)
        if name == 'std::vector':
            el = self._cl(strip_cvref(args[0])[0])
            return T('vector', None, elem=el)
        if name == 'std::list':
            el = self._cl(strip_cvref(args[0])[0])
            return T('list', None, elem=el)
        if name in ('std::unordered_map', 'std::map', 'std::multimap'):
            kt = self._cl(strip_cvref(args[0])[0])
            vt = self._cl(strip_cvref(args[1])[0])
            return T({'std::unordered_map': 'hash', 'std::map': 'map', 'std::multimap': 'mmap'}[name], None, kt=kt, vt=vt)
        if name in ('std::lock_guard', 'std::scoped_lock'):
            return T('guard', None)
        if name == 'std::unique_lock':
            return T('ulock', None)
        if name == 'std::uniform_int_distribution':
            return T('dist', None)
        if name in ('std::mersenne_twister_engine', 'std::random_device', 'std::mt19937'):
            return T('rng', None)
        if name == 'cappuccino::mutex':
            if args[0] in ('cappuccino::thread_safe::yes', '(cappuccino::thread_safe)1'):
                return T('cmutex', 'cappuccino_mutex_yes', ts='yes')
            if args[0] in ('cappuccino::thread_safe::no', '(cappuccino::thread_safe)0'):
                return T('cmutex', 'cappuccino_mutex_no', ts='no')
            abort('mutex instantiation: ' + t)
        if name == 'std::mutex' or t == 'std::mutex':
            return T('stdmutex', 'cstl_std_mutex')
        m = re.match(r'^cappuccino::(\w+)<.*>::(\w+)$', t)
        if m:
            return T('record', '%s__%s' % (m.group(1), m.group(2)), rec=m.group(2))
        m = re.match(r'^cappuccino::(\w+)<.*>$', t)
        if m:
            return T('self', m.group(1))
        abort('type without a rule: ' + t)


def tstr(node):
    ty = node.get('type', {})
    return ty.get('desugaredQualType', ty.get('qualType'))


# ------------------------------------------------------------------------------------------------
# class context


class Model:
    """one instantiation of a cstl container model"""

    def __init__(self, kind, name, **kw):
        self.kind = kind
        self.name = name
        self.__dict__.update(kw)


class ClassCtx:
    def __init__(self, name, suffix, spec, types_objs, ts):
        self.name = name
        self.cname = name + suffix  # C struct / prefix
        self.spec = spec
        self.ts = ts
        self.models = []
        self.fields = []  # (name, T, node)
        self.records = {}  # cname -> [(fname, T)]
        self.rec_nodes = {}
        self.method_names = {}  # decl id -> cname
        self.methods = []
        self.T = Types(self)


class Emitter:
    def __init__(self, objs, lockcov=False):
        self.objs = objs
        self.lockcov = lockcov
        self.enums = {}  # enum name -> {const: value}
        self.enum_by_id = {}
        self.free_funcs = {}
        for o in objs:
            if o['kind'] == 'EnumDecl':
                vals = {}
                nxt = 0
                for c in o.get('inner', []):
                    if c['kind'] != 'EnumConstantDecl':
                        continue
                    v = None
                    for x in c.get('inner', []):
                        if v is None and x['kind'] not in ('FullComment',):
                            v = self._const_value(x)
                    if v is None:
                        v = nxt
                    vals[c['name']] = v
                    self.enum_by_id[c['id']] = v
                    nxt = v + 1
                self.enums[o['name']] = vals
            if o['kind'] == 'FunctionDecl' and o.get('name') in ('insert_allowed', 'update_allowed'):
                self.free_funcs[o['name']] = o

    def _const_value(self, x):
        if x['kind'] == 'ConstantExpr' and 'value' in x:
            return {'true': 1, 'false': 0}.get(x['value'], None) if x['value'] in ('true', 'false') else int(x['value'])
        if x['kind'] == 'IntegerLiteral':
            return int(x['value'])
        for c in x.get('inner', []):
            v = self._const_value(c)
            if v is not None:
                return v
        return None

    # -------------------------------------------------------------------------------------------
    def specializations(self):
        """explicitly instantiated container specialisations (top-level dumps)"""
        out = []
        for o in self.objs:
            if o['kind'] == 'ClassTemplateSpecializationDecl' and o.get('name') != 'mutex':
                targs = [c for c in o['inner'] if c['kind'] == 'TemplateArgument']
                ts = None
                for a in targs:
                    if 'value' in a:
                        ts = 'yes' if a['value'] == 1 else 'no'
                out.append((o['name'], ts, o))
        return out

    def mutex_specs(self):
        out = {}
        for o in self.objs:
            if o['kind'] == 'ClassTemplateDecl' and o['name'] == 'mutex':
                for c in o['inner']:
                    if c['kind'] == 'ClassTemplateSpecializationDecl':
                        v = [a for a in c['inner'] if a['kind'] == 'TemplateArgument' and 'value' in a]
                        out['yes' if v[0]['value'] == 1 else 'no'] = c
        return out

    # -------------------------------------------------------------------------------------------
    def build_class(self, name, ts, spec):
        suffix = '' if ts == 'yes' else '_nots'
        cx = ClassCtx(name, suffix, spec, None, ts)
        cx.suffix = suffix
        inner = spec['inner']
        # nested records first (their types are needed by the field types)
        access = 'private'
        for m in inner:
            if m['kind'] == 'CXXRecordDecl' and not m.get('isImplicit') and m.get('name') != name:
                if m.get('completeDefinition') or any(x['kind'] == 'FieldDecl' for x in m.get('inner', [])):
                    cx.rec_nodes[m['name']] = m
        # container fields -> models
        fields = [m for m in inner if m['kind'] == 'FieldDecl']
        # first pass: classify without class context for container kinds
        T0 = Types(None)
        listelems, vecelems = [], []
        pend = []
        for f in fields:
            t = tstr(f)
            base = strip_cvref(t)[0]
            nm, args = parse_tmpl(base)
            pend.append((f, nm, args))
        # models need record element types; resolve in two rounds
        # round 1: hash/map/mmap/list/vector models with element C types by name
        def ctype_of(tstring):
            return cx.T.classify(tstring)
        nlist = {}
        for f, nm, args in pend:
            if nm == 'std::list':
                el = args[0]
                nlist[el] = nlist.get(el, 0) + 1
        li = vi = 0
        seen_list = {}
        # associative models must exist before records that mention pair<const K,V> (none do), and
        # list models are keyed by element type
        for f, nm, args in pend:
            if nm in ('std::unordered_map', 'std::map', 'std::multimap'):
                kind = {'std::unordered_map': 'hash', 'std::map': 'map', 'std::multimap': 'mmap'}[nm]
                fam = 'hash' if kind == 'hash' else 'tree'
                if any(m.kind in ('hash', 'map', 'mmap') and m.fam == fam for m in cx.models):
                    abort('two %s containers in one class: iterator types would be ambiguous' % fam)
                mname = '%s__%s' % (cx.cname, 'H' if fam == 'hash' else 'R')
                cx.models.append(Model(kind, mname, fam=fam, ktsrc=args[0], vtsrc=args[1], pool='P_' + ('H' if fam == 'hash' else 'R'), field=f['name'], np='(MAXCAP + 1)'))
        for f, nm, args in pend:
            if nm == 'std::list':
                el = args[0]
                if el not in seen_list:
                    mname = '%s__L%d' % (cx.cname, li)
                    seen_list[el] = Model('list', mname, elsrc=el, pool='P_L%d' % li, np='(%d * (MAXCAP + 1))' % nlist[el], fields=[])
                    cx.models.append(seen_list[el])
                    li += 1
                seen_list[el].fields.append(f['name'])
            if nm == 'std::vector':
                mname = '%s__V%d' % (cx.cname, vi)
                cx.models.append(Model('vec', mname, elsrc=args[0], field=f['name'], np='MAXCAP'))
                vi += 1
        # resolve element / key / value types (records may reference iterators: fine, all cstl_iter)
        for m in cx.models:
            if m.kind in ('hash', 'map', 'mmap'):
                m.kt = T0.classify(m.ktsrc) if not m.ktsrc.startswith('cappuccino::') else None
                m.kt = cx.T._cl(m.ktsrc)
                m.vt = cx.T._cl(m.vtsrc)
            else:
                m.el = cx.T._cl(m.elsrc)
        # records
        for rn, rnode in cx.rec_nodes.items():
            fl = []
            for x in rnode.get('inner', []):
                if x['kind'] == 'FieldDecl':
                    fl.append((x['name'], cx.T.classify(tstr(x))))
            cx.records['%s__%s' % (name, rn)] = fl
        # fields
        for f in fields:
            t = cx.T.classify(tstr(f))
            cx.fields.append((f['name'], t, f))
        # methods
        access = 'private'
        seen = {}
        for m in inner:
            if m['kind'] == 'AccessSpecDecl':
                access = m.get('access', access)
                continue
            cands = []
            if m['kind'] in ('CXXMethodDecl', 'CXXConstructorDecl'):
                cands = [(m, False)]
            elif m['kind'] == 'FunctionTemplateDecl':
                cands = [(x, True) for x in m['inner'] if x['kind'] == 'CXXMethodDecl' and any(y['kind'] == 'TemplateArgument' for y in x.get('inner', []))]
            for fn, istmpl in cands:
                if fn.get('isImplicit'):
                    continue
                body = [x for x in fn.get('inner', []) if x['kind'] == 'CompoundStmt']
                if not body:
                    continue
                base = 'ctor' if fn['kind'] == 'CXXConstructorDecl' else fn['name']
                params = [x for x in fn['inner'] if x['kind'] == 'ParmVarDecl']
                # overloads: iterator-pair templates get the suffix __it
                cn = base
                if istmpl and params and cx.T.classify(tstr(params[0])).k == 'ptr':
                    cn = base + '__it'
                if cn in seen:
                    abort('overload without a naming rule: %s::%s' % (name, cn), fn)
                seen[cn] = True
                cx.method_names[fn['id']] = '%s__%s' % (cx.cname, cn)
                cx.methods.append(dict(node=fn, cname='%s__%s' % (cx.cname, cn), short=cn, access=access, istmpl=istmpl))
        return cx

    # -------------------------------------------------------------------------------------------
    # emission of one class

    def emit_class(self, cx):
        H = []  # header lines
        C = []  # definitions
        n = cx.cname
        H.append('/* GENERATED by extract/ast2c.py from the clang AST of cappuccino::%s<uint64_t,uint64_t,thread_safe::%s> -- do not edit */' % (cx.name, cx.ts))
        H.append('#ifndef GEN_%s_H\n#define GEN_%s_H' % (n.upper(), n.upper()))
        H.append('#include "cstl.h"\n#include "gen_common.h"')
        # records (need iter types only) -- before models whose element is a record
        for rc, fl in cx.records.items():
            rcn = rc if cx.suffix == '' else rc.replace(cx.name + '__', cx.cname + '__', 1)
            H.append('typedef struct %s {' % rcn)
            for fnm, ft in fl:
                H.append('    %s %s;' % (ft.c, fnm))
            H.append('} %s;' % rcn)
        for m in cx.models:
            if m.kind == 'list':
                H.append('#define CSTL_NAME %s\n#define CSTL_T %s\n#define CSTL_NP %s' % (m.name, self.cfix(cx, m.el.c), m.np))
                if m.el.k == 'u64':
                    H.append('#define CSTL_LIST_IOTA')
                H.append('#include "cstl_list.h"')
            elif m.kind == 'vec':
                H.append('#define CSTL_NAME %s\n#define CSTL_T %s\n#define CSTL_NP %s\n#include "cstl_vec.h"' % (m.name, self.cfix(cx, m.el.c), m.np))
            elif m.kind in ('hash', 'map'):
                H.append('#define CSTL_NAME %s\n#define CSTL_K %s\n#define CSTL_V %s\n#define CSTL_NP %s' % (m.name, m.kt.c, self.cfix(cx, m.vt.c), m.np))
                if m.kind == 'hash':
                    H.append('#define CSTL_MAP_HASHED')
                H.append('#include "cstl_map.h"')
            elif m.kind == 'mmap':
                H.append('#define CSTL_NAME %s\n#define CSTL_K %s\n#define CSTL_V %s\n#define CSTL_NP %s\n#include "cstl_mmap.h"' % (m.name, m.kt.c, self.cfix(cx, m.vt.c), m.np))
        H.append('typedef struct %s {' % n)
        for fnm, ft, fnode in cx.fields:
            if ft.k == 'rng':
                H.append('    /* %s: random engine state dropped (abstracted to cstl_rand_range) */' % fnm)
                continue
            H.append('    %s %s;' % (self.field_ctype(cx, fnm, ft), fnm))
        H.append('    /* node pools: the heap of container nodes owned by this object */')
        for m in cx.models:
            if m.kind != 'vec':
                H.append('    %s_pool %s;' % (m.name, m.pool))
        H.append('} %s;' % n)
        protos = []
        info = dict(cls=cx.name, cname=n, ts=cx.ts, functions=[], fields=[f[0] for f in cx.fields if f[1].k != 'rng'],
                    models=[dict(kind=m.kind, name=m.name, pool=getattr(m, 'pool', None), field=getattr(m, 'field', None), fields=getattr(m, 'fields', None)) for m in cx.models],
                    member_ops={})
        self.info = info
        for md in cx.methods:
            fe = FuncEmitter(self, cx, md)
            try:
                sig, body = fe.emit()
            except Abort as ex:
                raise Abort('%s: %s' % (md['cname'], ex))
            protos.append(sig + ';')
            C.append('%s\n/*@CONTRACT %s@*/\n%s\n' % (sig, md['cname'], body))
            info['functions'].append(dict(cname=md['cname'], short=md['short'], access=md['access'], ret=fe.ret.c if fe.ret.k != 'void' else 'void',
                                          params=fe.cparams, calls=sorted(fe.calls), members=sorted(fe.members), loops=fe.nloops, guard=fe.has_guard))
        H.extend(protos)
        H.append('#endif')
        ctext = '\n'.join(C)
        extra = CHRONO_EXTRA if re.search(r'\bcstl_(ns_to_ms|tp_diff|tp_add_ns)\(', ctext) else ''
        if re.search(r'\bcstl_outvec(_kb)?_back\(', ctext):
            extra += OUTVEC_EXTRA
        return '\n'.join(H) + '\n', '#include "%s.h"\n\n' % n + extra + ctext, info

    def cfix(self, cx, c):
        """record C names carry the class name; for the nots instantiation use the suffixed one"""
        if cx.suffix and c.startswith(cx.name + '__'):
            return c.replace(cx.name + '__', cx.cname + '__', 1)
        return c

    def field_ctype(self, cx, fnm, ft):
        if ft.k in ('list',):
            for m in cx.models:
                if m.kind == 'list' and fnm in m.fields:
                    return m.name
        if ft.k in ('hash', 'map', 'mmap', 'vector'):
            for m in cx.models:
                if getattr(m, 'field', None) == fnm:
                    return m.name
        if ft.c is None:
            abort('field type without a C type: %s %s' % (fnm, ft))
        return self.cfix(cx, ft.c)

    # -------------------------------------------------------------------------------------------
    def emit_common(self):
        """allow.hpp helpers, enums, lock.hpp mutex<>"""
        H = ['/* GENERATED by extract/ast2c.py: enums, allow.hpp helpers, lock.hpp mutex<> -- do not edit */',
             '#ifndef GEN_COMMON_H\n#define GEN_COMMON_H\n#include "cstl.h"']
        for en, vals in self.enums.items():
            for c, v in vals.items():
                H.append('#define cappuccino_%s_%s %d' % (en, c, v))
        ms = self.mutex_specs()
        funcs = []
        for ts in ('yes', 'no'):
            if ts not in ms:
                continue
            spec = ms[ts]
            cn = 'cappuccino_mutex_' + ts
            H.append('typedef struct %s { cstl_std_mutex m_lock; } %s;' % (cn, cn))
            cx = ClassCtx('mutex', '', spec, None, ts)
            cx.cname = cn
            cx.suffix = ''
            cx.fields = [('m_lock', T('stdmutex', 'cstl_std_mutex'), None)]
            for m in spec['inner']:
                if m['kind'] == 'CXXMethodDecl' and m.get('name') in ('lock', 'unlock') and any(x['kind'] == 'CompoundStmt' for x in m['inner']):
                    md = dict(node=m, cname='%s__%s' % (cn, m['name']), short=m['name'], access='public', istmpl=False)
                    cx.method_names[m['id']] = md['cname']
                    fe = FuncEmitter(self, cx, md)
                    sig, body = fe.emit()
                    funcs.append('static inline ' + sig + '\n' + body)
        for fname, fn in self.free_funcs.items():
            cx = ClassCtx('', '', None, None, None)
            cx.cname = 'cappuccino'
            cx.suffix = ''
            md = dict(node=fn, cname='cappuccino__' + fname, short=fname, access='public', istmpl=False, free=True)
            fe = FuncEmitter(self, cx, md)
            sig, body = fe.emit()
            funcs.append('static inline ' + sig + '\n' + body)
        H.extend(funcs)
        H.append('#endif')
        return '\n'.join(H) + '\n'


# ------------------------------------------------------------------------------------------------
# one function


class FuncEmitter:
    def __init__(self, em, cx, md):
        self.em = em
        self.cx = cx
        self.md = md
        self.node = md['node']
        self.vars = {}  # decl id -> dict(c=name, ref=bool, T=...)
        self.bindings = {}  # BindingDecl id -> C expr
        self.lines = []
        self.ind = 1
        self.scopes = []  # list of lists of cleanup statements
        self.tmp = 0
        self.calls = set()
        self.members = set()
        self.nloops = 0
        self.has_guard = False
        self.dists = {}
        self.ulocks = {}
        self.loop_depth_scopes = []  # scope depth at loop entry (for break)
        self.switch_depth = []       # len(loop_depth_scopes) inside each open switch
        self.terminated = False
        self.T = cx.T if cx.name not in ('',) else Types(None)
        self.free = md.get('free', False)
        self.is_ctor = self.node['kind'] == 'CXXConstructorDecl'
        self.names_used = {}

    # ---- helpers
    def out(self, s):
        self.lines.append('    ' * self.ind + s)

    def fresh(self, base):
        self.tmp += 1
        return '__%s%d' % (base, self.tmp)

    def cls(self, node):
        return self.T.classify(tstr(node))

    def ctype(self, t):
        if t.c is None:
            abort('no C type for %s' % t.src)
        return self.em.cfix(self.cx, t.c)

    def model_for_list_elem(self, el):
        for m in self.cx.models:
            if m.kind == 'list' and m.el.c == el.c:
                return m
        abort('no list pool for element type %s' % el.c)

    def model_for_iter(self, t, node=None):
        if t.fam == 'list':
            return self.model_for_list_elem(t.elem)
        for m in self.cx.models:
            if m.kind in ('hash', 'map', 'mmap') and m.fam == t.fam:
                return m
        abort('no pool for iterator type %s' % t.src, node)

    def model_for_container(self, t, node):
        """model of a std container typed expression"""
        if t.k == 'list':
            return self.model_for_list_elem(t.elem)
        if t.k in ('hash', 'map', 'mmap'):
            for m in self.cx.models:
                if m.kind == t.k:
                    return m
        if t.k == 'vector':
            for m in self.cx.models:
                if m.kind == 'vec' and m.el.c == t.elem.c:
                    return m
            return None
        abort('no model for container %s' % t.src, node)

    def pool(self, m):
        return '&self->%s' % m.pool

    # ---- signature
    def emit(self):
        fn = self.node
        params = [x for x in fn['inner'] if x['kind'] == 'ParmVarDecl']
        cparams = []
        if not self.free:
            cparams.append(('%s *' % self.cx.cname, 'self'))
        for p in params:
            t = self.cls(p)
            name = p.get('name') or self.fresh('arg')
            if t.k == 'vector':
                rng = {'u64': 'cstl_range_k', 'pair': 'cstl_range_kv', 'pairkopt': 'cstl_range_kopt', 'pairkb': 'cstl_range_kb', 'tuple3': 'cstl_range_t3'}.get(t.elem.k)
                if not rng:
                    abort('range parameter without a rule: ' + t.src, p)
                self.vars[p['id']] = dict(c=name, ref=True, T=T('range', rng, elem=t.elem))
                cparams.append((rng + ' *', name))
            elif (t.isref or t.isrref) and not (t.k in ('u64', 'i64', 'int', 'bool', 'tp', 'ms', 'iter', 'float') and (t.isconst or t.isrref)):
                self.vars[p['id']] = dict(c=name, ref=True, T=t)
                cparams.append((self.ctype(t) + ' *', name))
            else:
                self.vars[p['id']] = dict(c=name, ref=False, T=t)
                cparams.append((self.ctype(t), name))
        if self.is_ctor:
            self.ret = T('void', 'void')
        else:
            rt = fn['type']['qualType']
            # return type: text after '->' or before '('
            m = re.search(r'->\s*(.*)$', rt)
            rts = m.group(1) if m else rt[:rt.index('(')].strip()
            if rts == 'auto' or 'type-parameter' in rts:
                abort('undeduced return type', fn)
            self.ret = self._ret_type(fn, rts)
        self.cparams = cparams
        sig = '%s %s(%s)' % ('void' if self.ret.k == 'void' else self.ctype(self.ret), self.md['cname'], ', '.join('%s%s%s' % (a, '' if a.endswith('*') else ' ', b) for a, b in cparams) or 'void')
        self.lines = []
        self.ind = 0
        self.out('{')
        self.ind = 1
        if self.is_ctor:
            self.emit_ctor_inits(fn)
        body = [x for x in fn['inner'] if x['kind'] == 'CompoundStmt'][0]
        self.scopes.append([])
        for s in body.get('inner', []):
            self.stmt(s)
        self.end_scope()
        self.ind = 0
        self.out('}')
        return sig, '\n'.join(self.lines)

    def _ret_type(self, fn, rts):
        # the qualType of the function carries sugar; classify by text with class typedef fallbacks
        rts = rts.strip()
        try:
            t = self.T.classify(rts)
        except Abort:
            raise
        if t.k == 'vector':
            if t.elem.k == 'pairkopt':
                return T('outvec', 'cstl_outvec')
            if t.elem.k == 'pairkb':
                return T('outvec', 'cstl_outvec_kb')
            abort('vector return type without a rule: ' + rts, fn)
        return t

    # ---- constructor member initialisers
    def emit_ctor_inits(self, fn):
        cx = self.cx
        for m in cx.models:
            if m.kind != 'vec':
                self.out('%s_pool_init(&self->%s);' % (m.name, m.pool))
        for ini in [x for x in fn['inner'] if x['kind'] == 'CXXCtorInitializer']:
            f = ini['anyInit']
            fname = f['name']
            ft = self.T.classify(f['type'].get('desugaredQualType', f['type']['qualType']))
            e = ini['inner'][0]
            self.ctor_member_init(fname, ft, e)

    def ctor_member_init(self, fname, ft, e):
        lhs = 'self->%s' % fname
        e = self.strip_wrappers(e)
        if ft.k == 'rng':
            self.out('/* %s: random engine construction dropped */' % fname)
            return
        if ft.k == 'cmutex':
            self.out('%s.m_lock.held = false; %s.m_lock.acq = 0;' % (lhs, lhs))
            return
        if e['kind'] == 'CXXDefaultInitExpr':
            fld = [f for f in self.cx.fields if f[0] == fname][0][2]
            ie = [x for x in fld.get('inner', []) if x['kind'] not in ('FullComment',)]
            if not ie:
                abort('default member initialiser not found for ' + fname, e)
            self.out('%s = %s;' % (lhs, self.expr(ie[0])))
            return
        if ft.k in ('list', 'hash', 'map', 'mmap', 'vector'):
            m = None
            for mm in self.cx.models:
                if (mm.kind == 'list' and fname in mm.fields) or getattr(mm, 'field', None) == fname:
                    m = mm
            args = [a for a in e.get('inner', []) if a['kind'] != 'CXXDefaultArgExpr'] if e['kind'] == 'CXXConstructExpr' else None
            if args is None:
                abort('container member initialiser without a rule', e)
            if ft.k == 'vector':
                if len(args) != 1:
                    abort('vector constructor form without a rule', e)
                self.out('%s_ctor_n(&%s, %s);' % (m.name, lhs, self.expr(args[0])))
            elif ft.k == 'list':
                if len(args) == 0:
                    self.out('%s_ctor(&self->%s, &%s);' % (m.name, m.pool, lhs))
                elif len(args) == 1:
                    self.out('%s_ctor_n(&self->%s, &%s, %s);' % (m.name, m.pool, lhs, self.expr(args[0])))
                else:
                    abort('list constructor form without a rule', e)
            else:
                if len(args) != 0:
                    abort('map constructor form without a rule', e)
                self.out('%s_ctor(&self->%s, &%s);' % (m.name, m.pool, lhs))
            return
        if e['kind'] == 'CXXConstructExpr' and not [a for a in e.get('inner', [])]:
            if ft.k == 'iter':
                self.out('%s = CSTL_NIL; /* default-constructed iterator */' % lhs)
                return
            abort('default construction of member without a rule: %s' % fname, e)
        self.out('%s = %s;' % (lhs, self.expr(e)))

    # ---- scopes / cleanups
    def end_scope(self):
        sc = self.scopes.pop()
        if self.terminated:
            return  # control cannot fall off the end of this scope (it ended in return/break)
        for c in reversed(sc):
            self.out(c)

    def all_cleanups(self, down_to=0):
        out = []
        for sc in reversed(self.scopes[down_to:]):
            out.extend(reversed(sc))
        return out

    # ---- statements
    def stmt(self, s):
        k = s['kind']
        self.terminated = False
        self.stmt_(s)
        if k in ('ReturnStmt', 'BreakStmt', 'ContinueStmt'):
            self.terminated = True
        elif k == 'CompoundStmt':
            self.terminated = self.ends_in_jump(s)
        elif k == 'IfStmt' and len(s['inner']) > 2 and not s.get('isConstexpr') and self.ends_in_jump(s['inner'][1]) and self.ends_in_jump(s['inner'][2]):
            self.terminated = True
        else:
            self.terminated = False

    def ends_in_jump(self, s):
        if s['kind'] in ('ReturnStmt', 'BreakStmt', 'ContinueStmt'):
            return True
        if s['kind'] == 'CompoundStmt' and s.get('inner'):
            return self.ends_in_jump(s['inner'][-1])
        if s['kind'] == 'IfStmt' and len(s['inner']) > 2:
            return self.ends_in_jump(s['inner'][1]) and self.ends_in_jump(s['inner'][2])
        return False

    def stmt_(self, s):
        k = s['kind']
        if k == 'CompoundStmt':
            self.out('{')
            self.ind += 1
            self.scopes.append([])
            for x in s.get('inner', []):
                self.stmt(x)
            self.end_scope()
            self.ind -= 1
            self.out('}')
        elif k == 'DeclStmt':
            for d in s['inner']:
                self.decl(d)
        elif k == 'IfStmt':
            inner = s['inner']
            if s.get('hasVar'):
                abort('if with a condition variable', s)
            if s.get('hasInit'):
                # if (init; cond): the init statement's names live in a scope around the if
                self.out('{')
                self.ind += 1
                self.scopes.append([])
                self.stmt(inner[0])
                s2 = dict(s)
                s2['hasInit'] = False
                s2['inner'] = inner[1:]
                self.stmt(s2)
                self.end_scope()
                self.ind -= 1
                self.out('}')
                return
            if s.get('isConstexpr'):
                v = self.em._const_value(inner[0]) if inner[0]['kind'] == 'ConstantExpr' else None
                if v is None:
                    abort('if constexpr whose condition has no constant value in the AST', s)
                self.out('/* if constexpr: condition is %s in this instantiation */' % ('true' if v else 'false'))
                if v:
                    self.block(inner[1])
                elif len(inner) > 2:
                    self.block(inner[2])
                return
            self.out('if (%s)' % self.expr(inner[0]))
            self.block(inner[1])
            if len(inner) > 2:
                self.out('else')
                self.block(inner[2])
        elif k == 'ReturnStmt':
            cl = self.all_cleanups()
            if not s.get('inner'):
                for c in cl:
                    self.out(c)
                self.out('return;')
            else:
                e = self.expr(s['inner'][0])
                if cl:
                    r = self.fresh('ret')
                    self.out('{')
                    self.out('    %s %s = %s;' % (self.ctype(self.ret), r, e))
                    for c in cl:
                        self.out('    ' + c)
                    self.out('    return %s;' % r)
                    self.out('}')
                else:
                    self.out('return %s;' % e)
        elif k == 'WhileStmt':
            self.nloops += 1
            self.out('while (%s)' % self.expr(s['inner'][0]))
            self.loop_depth_scopes.append(len(self.scopes))
            self.block(s['inner'][1])
            self.loop_depth_scopes.pop()
        elif k == 'ForStmt':
            self.nloops += 1
            init, condvar, cond, inc, body = s['inner']
            if condvar and condvar != {}:
                abort('for with condition variable', s)
            self.out('{')
            self.ind += 1
            self.scopes.append([])
            if init and init != {}:
                self.stmt(init)
            self.out('for (; %s; %s)' % (self.expr(cond) if cond and cond != {} else '', self.expr(inc) if inc and inc != {} else ''))
            self.loop_depth_scopes.append(len(self.scopes))
            self.block(body)
            self.loop_depth_scopes.pop()
            self.terminated = False
            self.end_scope()
            self.ind -= 1
            self.out('}')
        elif k == 'CXXForRangeStmt':
            self.nloops += 1
            init, rng, beg, end, cond, inc, loopvar, body = s['inner']
            if init and init != {}:
                abort('range-for with init statement', s)
            self.out('{')
            self.ind += 1
            self.scopes.append([])
            self.stmt(rng)
            self.stmt(beg)
            self.stmt(end)
            self.out('for (; %s; %s)' % (self.expr(cond), self.expr(inc)))
            self.out('{')
            self.ind += 1
            self.scopes.append([])
            self.loop_depth_scopes.append(len(self.scopes) - 1)
            self.stmt(loopvar)
            if body['kind'] == 'CompoundStmt':
                for x in body.get('inner', []):
                    self.stmt(x)
            else:
                self.stmt(body)
            self.loop_depth_scopes.pop()
            self.end_scope()
            self.terminated = False
            self.ind -= 1
            self.out('}')
            self.end_scope()
            self.ind -= 1
            self.out('}')
        elif k == 'DoStmt':
            self.nloops += 1
            self.out('do')
            self.loop_depth_scopes.append(len(self.scopes))
            self.block(s['inner'][0])
            self.loop_depth_scopes.pop()
            self.out('while (%s);' % self.expr(s['inner'][1]))
        elif k == 'SwitchStmt':
            inner = s['inner']
            if s.get('hasInit') or s.get('hasVar') or len(inner) != 2 or inner[1]['kind'] != 'CompoundStmt':
                abort('switch with init/var or without a compound body', s)
            self.out('switch (%s)' % self.expr(inner[0]))
            self.out('{')
            self.ind += 1
            self.scopes.append([])
            self.loop_depth_scopes.append(len(self.scopes))  # break leaves the switch
            self.switch_depth.append(len(self.loop_depth_scopes))
            def label(x):
                while x['kind'] in ('CaseStmt', 'DefaultStmt'):
                    if x['kind'] == 'CaseStmt':
                        self.out('case %s:' % self.expr(x['inner'][0]))
                        x = x['inner'][-1]
                    else:
                        self.out('default:')
                        x = x['inner'][-1]
                    self.terminated = False
                return x
            for x in inner[1].get('inner', []):
                x = label(x)
                if x['kind'] == 'DeclStmt':
                    abort('declaration directly inside a switch body', x)
                self.stmt(x)
            self.switch_depth.pop()
            self.loop_depth_scopes.pop()
            self.end_scope()
            self.ind -= 1
            self.out('}')
            self.terminated = False
        elif k == 'BreakStmt':
            if not self.loop_depth_scopes:
                abort('break outside loop', s)
            for c in self.all_cleanups(self.loop_depth_scopes[-1]):
                self.out(c)
            self.out('break;')
        elif k == 'ContinueStmt':
            if not self.loop_depth_scopes:
                abort('continue outside loop', s)
            if self.switch_depth and self.switch_depth[-1] == len(self.loop_depth_scopes):
                abort('continue directly inside a switch', s)
            for c in self.all_cleanups(self.loop_depth_scopes[-1]):
                self.out(c)
            self.out('continue;')
        elif k == 'NullStmt':
            self.out(';')
        elif k in EXPR_KINDS:
            self.out('%s;' % self.expr(s, stmt=True))
        else:
            abort('statement kind without a rule: ' + k, s)

    def block(self, s):
        if s['kind'] == 'CompoundStmt':
            self.stmt(s)
        else:
            self.out('{')
            self.ind += 1
            self.scopes.append([])
            self.stmt(s)
            self.end_scope()
            self.ind -= 1
            self.out('}')

    def uniq(self, name):
        # C has no shadowing problems inside nested blocks, but the same name at the same level
        # (e.g. structured bindings named like an outer variable) is fine too; keep names as is
        return name

    def decl(self, d):
        k = d['kind']
        if k == 'VarDecl':
            if d.get('storageClass') in ('static', 'extern') or d.get('tls'):
                abort('local variable with static/thread storage (state shared between calls and objects is outside the per-object contracts)', d)
            t = self.cls(d)
            name = d['name']
            init = d.get('inner', [])
            init = [x for x in init if x['kind'] != 'FullComment']
            if t.k == 'guard':
                e = self.strip_wrappers(init[0])
                arg = self.expr(e['inner'][0])
                mt = self.cls(e['inner'][0])
                if mt.k != 'cmutex':
                    abort('lock_guard over something that is not cappuccino::mutex', d)
                self.has_guard = True
                self.out('%s__lock(&%s); /* std::lock_guard %s{...} */' % (mt.c, arg, name))
                self.scopes[-1].append('%s__unlock(&%s); /* ~lock_guard %s */' % (mt.c, arg, name))
                return
            if t.k == 'ulock':
                e = self.strip_wrappers(init[0])
                cargs = [a for a in e.get('inner', []) if a['kind'] != 'CXXDefaultArgExpr']
                mt = self.cls(cargs[0])
                if mt.k != 'cmutex':
                    abort('unique_lock over something that is not cappuccino::mutex', d)
                arg = self.expr(cargs[0])
                deferred = False
                if len(cargs) == 2:
                    if 'defer_lock' not in json.dumps(cargs[1]):
                        abort('unique_lock constructor tag without a rule', d)
                    deferred = True
                elif len(cargs) != 1:
                    abort('unique_lock constructor form without a rule', d)
                self.has_guard = True
                owns = self.fresh('owns_' + name)
                self.out('bool %s = %s; /* std::unique_lock %s */' % (owns, 'false' if deferred else 'true', name))
                if not deferred:
                    self.out('%s__lock(&%s);' % (mt.c, arg))
                self.ulocks[d['id']] = (owns, mt.c, arg)
                self.scopes[-1].append('if (%s) %s__unlock(&%s); /* ~unique_lock %s */' % (owns, mt.c, arg, name))
                return
            if t.k == 'dist':
                e = self.strip_wrappers(init[0])
                args = [self.expr(a) for a in e['inner']]
                if len(args) != 2:
                    abort('uniform_int_distribution constructor form', d)
                a, b = self.fresh('dist_a'), self.fresh('dist_b')
                self.out('uint64_t %s = %s, %s = %s; /* std::uniform_int_distribution<size_t> %s{a, b} */' % (a, args[0], b, args[1], name))
                self.dists[d['id']] = (a, b)
                return
            if t.k == 'vector':
                if t.elem.k in ('pairkopt', 'pairkb') and not t.isref:
                    oc = 'cstl_outvec' if t.elem.k == 'pairkopt' else 'cstl_outvec_kb'
                    self.vars[d['id']] = dict(c=name, ref=False, T=T('outvec', oc))
                    self.out('%s %s; %s_ctor(&%s);' % (oc, name, oc, name))
                    return
                if t.isref:
                    # __range alias of a range parameter
                    e = self.strip_wrappers(init[0])
                    src = self.vars.get(e.get('referencedDecl', {}).get('id'))
                    if e['kind'] == 'DeclRefExpr' and src and src['T'].k == 'range':
                        self.vars[d['id']] = dict(c=name, ref=True, T=src['T'])
                        self.out('%s *%s = %s;' % (src['T'].c, name, src['c']))
                        return
                abort('vector variable without a rule', d)
            is_ref = (t.isref or t.isrref) and not (t.k in ('u64', 'i64', 'int', 'bool', 'tp', 'ms', 'float') and t.isconst)
            self.vars[d['id']] = dict(c=name, ref=is_ref, T=t)
            ct = self.ctype(t)
            if is_ref:
                s_init = s0 = self.expr(init[0])
                while s0.startswith('(') and s0.endswith(')') and balanced(s0[1:-1]):
                    s0 = s0[1:-1]
                m = re.match(r'^(.+)->(\w+)$', s0)
                if m and balanced(m.group(1)) and re.match(r'^\w+\(.*\)$', m.group(1)):
                    # reference to a MEMBER of the object a call returns a pointer to (`auto& e = it->second`): keep the
                    # pointer to the enclosing object and name the member at every use.  Same meaning as a pointer to
                    # the member (the call is evaluated once, here); CBMC resolves `node->member` through a pointer to
                    # the element of an unbounded array, it does not resolve a pointer into the middle of an element.
                    self.out('__typeof__(%s) %s__of = %s;' % (m.group(1), name, m.group(1)))
                    self.vars[d['id']]['alias'] = '%s__of->%s' % (name, m.group(2))
                else:
                    self.out('%s *%s = &(%s);' % (ct, name, s_init))
            elif not init:
                self.out('%s %s;' % (ct, name))
            else:
                e0 = self.strip_wrappers(init[0])
                if e0['kind'] == 'CXXConstructExpr' and not e0.get('inner') and t.k in ('iter', 'u64', 'tp', 'ms', 'i64'):
                    self.out('%s %s; /* default-initialised */' % (ct, name))
                else:
                    self.out('%s %s = %s;' % (ct, name, self.expr(init[0])))
        elif k == 'DecompositionDecl':
            t = self.cls(d)
            init = [x for x in d['inner'] if x['kind'] != 'BindingDecl']
            binds = [x for x in d['inner'] if x['kind'] == 'BindingDecl']
            fields = {'pair': ['first', 'second'], 'pairkopt': ['first', 'second'], 'pairkb': ['first', 'second'], 'mapnode': ['first', 'second'], 'tuple3': ['_0', '_1', '_2'], 'emplres': ['first', 'second']}.get(t.k)
            if t.k == 'record':
                # a struct decomposes into its data members in declaration order
                rf = self.cx.records.get('%s__%s' % (self.cx.name, t.rec))
                fields = [f[0] for f in rf] if rf else None
            if not fields or len(fields) != len(binds):
                abort('structured binding over a type without a rule: ' + t.src, d)
            name = self.fresh('decomp')
            if not (t.isref or t.isrref):
                # by value: the bindings name the fields of a local copy
                self.out('%s %s = %s;' % (self.ctype(t), name, self.expr(init[0])))
                for i, b in enumerate(binds):
                    self.bindings[b['id']] = '%s.%s' % (name, fields[i])
                return
            self.out('%s *%s = &(%s);' % (self.ctype(t), name, self.expr(init[0])))
            for i, b in enumerate(binds):
                self.bindings[b['id']] = '(*%s).%s' % (name, fields[i])
        else:
            abort('declaration kind without a rule: ' + k, d)

    # ---- expressions
    def strip_wrappers(self, e):
        while e['kind'] in ('ExprWithCleanups', 'MaterializeTemporaryExpr', 'CXXBindTemporaryExpr', 'ParenExpr', 'ConstantExpr') or \
                (e['kind'] == 'ImplicitCastExpr' and e.get('castKind') in ('NoOp', 'LValueToRValue', 'DerivedToBase', 'UncheckedDerivedToBase')):
            e = e['inner'][0]
        return e

    def args_of(self, e):
        return [a for a in e.get('inner', [])[1:] if a['kind'] != 'CXXDefaultArgExpr']

    def expr(self, e, stmt=False):
        k = e['kind']
        f = getattr(self, 'x_' + k, None)
        if not f:
            abort('expression kind without a rule: ' + k, e)
        return f(e)

    def x_ExprWithCleanups(self, e):
        return self.expr(e['inner'][0])

    x_MaterializeTemporaryExpr = x_ExprWithCleanups
    x_CXXBindTemporaryExpr = x_ExprWithCleanups
    x_ConstantExpr = x_ExprWithCleanups
    x_SubstNonTypeTemplateParmExpr = x_ExprWithCleanups

    def x_ParenExpr(self, e):
        return '(%s)' % self.expr(e['inner'][0])

    def x_IntegerLiteral(self, e):
        v = e['value']
        t = self.cls(e)
        return v + ('UL' if t.k == 'u64' else ('L' if t.k == 'i64' else ''))

    def x_FloatingLiteral(self, e):
        v = e['value']
        return v + ('f' if self.cls(e).k == 'float' else '')

    def x_CXXBoolLiteralExpr(self, e):
        return 'true' if e['value'] else 'false'

    def x_CXXThisExpr(self, e):
        return 'self'

    def x_InitListExpr(self, e):
        t = self.cls(e)
        inner = e.get('inner', [])
        if t.k in ('u64', 'i64', 'int', 'bool', 'float'):
            if not inner:
                return '0'
            if len(inner) == 1:
                return self.expr(inner[0])
        if t.k == 'record':
            vals = []
            for x in inner:
                sx = self.strip_wrappers(x)
                if sx['kind'] == 'ImplicitValueInitExpr' or (sx['kind'] == 'CXXConstructExpr' and not sx.get('inner')):
                    vals.append(None)
                else:
                    vals.append(self.expr(x))
            if all(v is None for v in vals):
                return '((%s){0})' % self.ctype(t)   # T{}: every field value-initialised
            fields = self.cx.records.get('%s__%s' % (self.cx.name, t.rec))
            if fields and len(vals) == len(fields):
                return '((%s){%s})' % (self.ctype(t), ', '.join('0' if v is None else v for v in vals))
        abort('init list without a rule: ' + t.src, e)

    def x_ImplicitCastExpr(self, e):
        ck = e.get('castKind')
        x = e['inner'][0]
        if ck in ('NoOp', 'LValueToRValue', 'FunctionToPointerDecay', 'DerivedToBase', 'UncheckedDerivedToBase', 'ConstructorConversion', 'UserDefinedConversion'):
            return self.expr(x)
        if ck in ('IntegralCast', 'IntegralToFloating', 'FloatingToIntegral', 'FloatingCast'):
            return '((%s)%s)' % (self.ctype(self.cls(e)), self.expr(x))
        if ck in ('IntegralToBoolean',):
            return '((%s) != 0)' % self.expr(x)
        abort('cast kind without a rule: %s' % ck, e)

    def x_CStyleCastExpr(self, e):
        ck = e.get('castKind')
        if ck in ('NoOp', 'IntegralCast', 'FloatingToIntegral', 'IntegralToFloating', 'FloatingCast'):
            return '((%s)(%s))' % (self.ctype(self.cls(e)), self.expr(e['inner'][0]))
        if ck == 'ToVoid':
            return '((void)(%s))' % self.expr(e['inner'][0])
        abort('explicit cast kind without a rule: %s' % ck, e)

    x_CXXStaticCastExpr = x_CStyleCastExpr
    x_CXXFunctionalCastExpr = x_CStyleCastExpr

    def x_DeclRefExpr(self, e):
        rd = e['referencedDecl']
        rk = rd['kind']
        if rk in ('VarDecl', 'ParmVarDecl'):
            v = self.vars.get(rd['id'])
            if v is None:
                if rd.get('name') == 'nullopt':
                    return '((cstl_opt){false, 0})'
                abort('reference to unknown variable %s' % rd.get('name'), e)
            if v.get('alias'):
                return '(%s)' % v['alias']
            return '(*%s)' % v['c'] if v['ref'] else v['c']
        if rk == 'BindingDecl':
            b = self.bindings.get(rd['id'])
            if b is None:
                abort('reference to unknown binding %s' % rd.get('name'), e)
            return b
        if rk == 'EnumConstantDecl':
            return str(self.em.enum_by_id[rd['id']])
        abort('reference to %s without a rule' % rk, e)

    def member_access(self, name):
        """this->name"""
        self.members.add(name)
        if self.em.lockcov and not self.is_ctor and self.cx.name not in ('mutex', '') and name != 'm_lock':
            return '(*(CSTL_COV(self, "%s::%s:%s"), &self->%s))' % (self.cx.name, self.md['short'], name, name)
        return 'self->%s' % name

    def x_MemberExpr(self, e):
        base = e['inner'][0]
        name = e['name']
        if self.strip_wrappers(base)['kind'] == 'CXXThisExpr':
            return self.member_access(name)
        b = self.expr(base)
        if e.get('isArrow'):
            return '%s->%s' % (b, name)
        return '%s.%s' % (b, name)

    def x_UnaryOperator(self, e):
        op = e['opcode']
        x = self.expr(e['inner'][0])
        if op in ('++', '--'):
            return '(%s%s)' % (x, op) if e.get('isPostfix') else '(%s%s)' % (op, x)
        if op in ('!', '-', '~'):
            return '(%s%s)' % (op, x)
        abort('unary operator without a rule: ' + op, e)

    def x_BinaryOperator(self, e):
        op = e['opcode']
        if op in ('+', '-', '*', '/', '%', '<', '>', '<=', '>=', '==', '!=', '&&', '||', '&', '|', '^', '=', '<<', '>>'):
            return '(%s %s %s)' % (self.expr(e['inner'][0]), op, self.expr(e['inner'][1]))
        abort('binary operator without a rule: ' + op, e)

    def x_ConditionalOperator(self, e):
        return '(%s ? %s : %s)' % (self.expr(e['inner'][0]), self.expr(e['inner'][1]), self.expr(e['inner'][2]))

    def x_CompoundAssignOperator(self, e):
        return '(%s %s %s)' % (self.expr(e['inner'][0]), e['opcode'], self.expr(e['inner'][1]))

    def x_CXXDefaultInitExpr(self, e):
        abort('default init expression outside constructor initialiser', e)

    # constructors ------------------------------------------------------------------------------
    def x_CXXConstructExpr(self, e):
        t = self.cls(e)
        args = [a for a in e.get('inner', []) if a['kind'] != 'CXXDefaultArgExpr']
        if t.k in ('iter', 'u64', 'i64', 'tp', 'ms', 'ptr', 'bool', 'int', 'float'):
            if len(args) == 1:
                return self.expr(args[0])
            abort('scalar/iterator construction with %d arguments' % len(args), e)
        if t.k == 'opt':
            if not args:
                return '((cstl_opt){false, 0})'
            if len(args) == 1:
                at = self.cls(args[0])
                if at.k == 'opt':
                    return self.expr(args[0])
                if at.k == 'nullopt':
                    return '((cstl_opt){false, 0})'
                if at.k in ('u64', 'iter'):
                    return '((cstl_opt){true, %s})' % self.expr(args[0])
            abort('optional construction without a rule', e)
        if t.k == 'optpair':
            if not args:
                return '((cstl_opt_pair){false, {0, 0}})'
            if len(args) == 1:
                at = self.cls(args[0])
                if at.k == 'optpair':
                    return self.expr(args[0])
                if at.k == 'pair':
                    return '((cstl_opt_pair){true, %s})' % self.expr(args[0])
            abort('optional<pair> construction without a rule', e)
        if t.k in ('pair',):
            if len(args) == 2:
                return '((cstl_pair){%s, %s})' % (self.expr(args[0]), self.expr(args[1]))
            if len(args) == 1 and self.cls(args[0]).k == 'pair':
                return self.expr(args[0])
            abort('pair construction without a rule', e)
        if t.k == 'record':
            if not args:
                return '((%s){0})' % self.ctype(t)
            if len(args) == 1 and self.cls(args[0]).k == 'record':
                return self.expr(args[0])
            # T{a, b}: a user constructor that initialises the fields positionally from its parameters
            self.check_positional_ctor(t, len(args), e)
            return '((%s){%s})' % (self.ctype(t), ', '.join(self.expr(a) for a in args))
        if t.k == 'vector' and len(args) == 1:
            # return of the output vector by move
            a = self.strip_wrappers(args[0])
            v = self.vars.get(a.get('referencedDecl', {}).get('id')) if a['kind'] == 'DeclRefExpr' else None
            if v and v['T'].k == 'outvec':
                return v['c']
        abort('construction of %s without a rule' % t.src, e)

    x_CXXTemporaryObjectExpr = x_CXXConstructExpr

    # calls -------------------------------------------------------------------------------------
    def callee_name(self, e):
        c = self.strip_wrappers(e['inner'][0])
        while c['kind'] == 'ImplicitCastExpr':
            c = c['inner'][0]
        if c['kind'] == 'DeclRefExpr':
            return c['referencedDecl'].get('name'), c
        abort('callee without a rule', e)

    def x_CallExpr(self, e):
        name, c = self.callee_name(e)
        args = self.args_of(e)
        if name in ('move', 'forward'):
            return self.expr(args[0])
        if name in ('insert_allowed', 'update_allowed'):
            self.calls.add('cappuccino__' + name)
            return 'cappuccino__%s(%s)' % (name, self.expr(args[0]))
        if name == 'now':
            return 'cstl_now()'
        if name == 'atomic_thread_fence':
            return '((void)0) /* std::atomic_thread_fence: no sequential effect */'
        if name == 'prev':
            t = self.cls(args[0])
            if t.k == 'iter' and t.fam == 'list':
                m = self.model_for_iter(t, e)
                return '%s_prev(%s, %s)' % (m.name, self.pool(m), self.expr(args[0]))
            abort('std::prev over %s' % t.src, e)
        if name == 'iota':
            t = self.cls(args[0])
            if t.k == 'iter' and t.fam == 'list':
                m = self.model_for_iter(t, e)
                return '%s_iota(%s, %s, %s, %s)' % (m.name, self.pool(m), self.expr(args[0]), self.expr(args[1]), self.expr(args[2]))
            if t.k == 'ptr' and t.elem.k == 'u64':
                return 'cstl_iota_ptr(%s, %s, %s)' % (self.expr(args[0]), self.expr(args[1]), self.expr(args[2]))
            abort('std::iota over %s' % t.src, e)
        if name == 'swap':
            t = self.cls(args[0])
            if t.k == 'u64':
                return 'cstl_swap_u64(&(%s), &(%s))' % (self.expr(args[0]), self.expr(args[1]))
            abort('std::swap over %s' % t.src, e)
        if name in ('max', 'min') and len(args) == 2:
            t = self.cls(args[0])
            if t.k in ('u64', 'iter'):
                return 'cstl_%s_u64(%s, %s)' % (name, self.expr(args[0]), self.expr(args[1]))
            if t.k in ('i64', 'tp', 'ms', 'int'):
                return 'cstl_%s_i64(%s, %s)' % (name, self.expr(args[0]), self.expr(args[1]))
            abort('std::%s over %s' % (name, t.src), e)
        if name == 'next' and len(args) == 1:
            t = self.cls(args[0])
            if t.k == 'iter' and t.fam == 'list':
                m = self.model_for_iter(t, e)
                return '%s_next(%s, %s)' % (m.name, self.pool(m), self.expr(args[0]))
            if t.k == 'iter' and t.fam == 'tree' and self.model_for_iter(t, e).kind == 'mmap':
                m = self.model_for_iter(t, e)
                return '%s_next(%s, %s)' % (m.name, self.pool(m), self.expr(args[0]))
            abort('std::next over %s' % t.src, e)
        if name == 'distance' and len(args) == 2:
            ta, tb = self.cls(args[0]), self.cls(args[1])
            if ta.k == 'ptr' and tb.k == 'ptr':
                return '((int64_t)((%s) - (%s)))' % (self.expr(args[1]), self.expr(args[0]))
            abort('std::distance over %s' % ta.src, e)
        if name == 'advance' and len(args) == 2:
            ta = self.cls(args[0])
            if ta.k == 'ptr':
                return '(%s += %s)' % (self.expr(args[0]), self.expr(args[1]))
            abort('std::advance over %s' % ta.src, e)
        if name == 'duration_cast' and len(args) == 1:
            tf, tt = self.cls(args[0]), self.cls(e)
            if tf.k == tt.k and tf.k in ('ms', 'ns'):
                return self.expr(args[0])
            if tf.k == 'ns' and tt.k == 'ms':
                return 'cstl_ns_to_ms(%s)' % self.expr(args[0])
            if tf.k == 'ms' and tt.k == 'ns':
                return 'cstl_ms_to_ns(%s)' % self.expr(args[0])
            abort('std::chrono::duration_cast from %s to %s' % (tf.src, tt.src), e)
        if name == 'make_optional' and len(args) == 1:
            t = self.cls(args[0])
            if t.k in ('u64', 'iter'):
                return '((cstl_opt){true, %s})' % self.expr(args[0])
            abort('std::make_optional over %s' % t.src, e)
        if name == 'make_pair':
            return '((cstl_pair){%s, %s})' % (self.expr(args[0]), self.expr(args[1]))
        if name in ('begin', 'end', 'size', 'empty'):
            a = self.strip_wrappers(args[0])
            v = self.vars.get(a.get('referencedDecl', {}).get('id')) if a['kind'] == 'DeclRefExpr' else None
            if v and v['T'].k == 'range':
                return self.range_op(v, name)
            abort('std::%s over something that is not a caller range' % name, e)
        abort('call of %s without a rule' % name, e)

    def pair_parts(self, a):
        """the two component expressions of a pair-valued argument written as make_pair(x, y), {x, y} or pair<..>(x, y)"""
        x = a
        while True:
            k = x['kind']
            if k in ('ImplicitCastExpr', 'MaterializeTemporaryExpr', 'ExprWithCleanups', 'CXXBindTemporaryExpr', 'CXXFunctionalCastExpr', 'ParenExpr') and x.get('inner'):
                x = x['inner'][0]
                continue
            if k in ('CXXConstructExpr', 'CXXTemporaryObjectExpr'):
                sub = x.get('inner', [])
                if len(sub) == 2:
                    return [self.expr(sub[0]), self.expr(sub[1])]
                if len(sub) == 1:
                    x = sub[0]
                    continue
                return None
            if k == 'InitListExpr' and len(x.get('inner', [])) == 2:
                return [self.expr(x['inner'][0]), self.expr(x['inner'][1])]
            if k == 'CallExpr':
                nm, _ = self.callee_name(x)
                if nm and nm.split('::')[-1] == 'make_pair':
                    aa = self.args_of(x)
                    if len(aa) == 2:
                        return [self.expr(aa[0]), self.expr(aa[1])]
            return None

    def range_op(self, v, name):
        r = '(*%s)' % v['c']
        if name == 'begin':
            return '%s.data' % r
        if name == 'end':
            return '(%s.data + %s.len)' % (r, r)
        if name == 'size':
            return '%s.len' % r
        if name == 'empty':
            return '(%s.len == 0)' % r
        abort('range operation without a rule: ' + name)

    def x_CXXMemberCallExpr(self, e):
        callee = self.strip_wrappers(e['inner'][0])
        if callee['kind'] != 'MemberExpr':
            abort('member call callee without a rule', e)
        name = callee['name']
        base = callee['inner'][0]
        args = self.args_of(e)
        sb = self.strip_wrappers(base)
        if sb['kind'] == 'CXXThisExpr':
            cn = self.cx.method_names.get(callee.get('referencedMemberDecl'))
            if not cn:
                abort('call of own member function %s that was not extracted' % name, e)
            self.calls.add(cn)
            # parameters that are pointers (reference params) need &
            # a defaulted argument (CXXDefaultArgExpr carries no expression in the dump): the callee's parameter default
            args = [self.default_arg_of(cn, i, a, e) if a['kind'] == 'CXXDefaultArgExpr' else a for i, a in enumerate(e.get('inner', [])[1:])]
            return '%s(%s)' % (cn, ', '.join(['self'] + [self.arg_for_own(cn, i, a) for i, a in enumerate(args)]))
        bt = self.cls(base)
        # variables with special models
        v = self.vars.get(sb.get('referencedDecl', {}).get('id')) if sb['kind'] == 'DeclRefExpr' else None
        if v and v['T'].k == 'outvec':
            if name == 'reserve':
                return '%s_reserve(&%s, %s)' % (v['T'].c, v['c'], self.expr(args[0]))
            if name == 'emplace_back' and len(args) == 2:
                return '%s_emplace_back(&%s, %s, %s)' % (v['T'].c, v['c'], self.expr(args[0]), self.expr(args[1]))
            if name == 'push_back' and len(args) == 1:
                kv = self.pair_parts(args[0])
                if kv:
                    return '%s_emplace_back(&%s, %s, %s)' % (v['T'].c, v['c'], kv[0], kv[1])
            if name == 'empty' and not args:
                return '(%s.size == 0)' % v['c']
            if name == 'size' and not args:
                return '%s.size' % v['c']
            if name == 'back' and not args:
                return '(*%s_back(&%s))' % (v['T'].c, v['c'])
            abort('output vector operation without a rule: ' + name, e)
        if v and v['T'].k == 'range':
            return self.range_op(v, name)
        if sb['kind'] == 'DeclRefExpr' and sb.get('referencedDecl', {}).get('id') in self.ulocks:
            owns, mc, arg = self.ulocks[sb['referencedDecl']['id']]
            if name == 'lock' and not args:
                return '(%s__lock(&%s), %s = true)' % (mc, arg, owns)
            if name == 'unlock' and not args:
                return '(%s__unlock(&%s), %s = false)' % (mc, arg, owns)
            if name == 'owns_lock' and not args:
                return owns
            abort('unique_lock operation without a rule: ' + name, e)
        if bt.k in ('ms', 'ns') and name == 'count' and not args:
            return '((int64_t)%s)' % self.expr(base)
        if bt.k == 'cmutex':
            return '%s__%s(&%s)' % (bt.c, name, self.expr(base))
        if bt.k == 'stdmutex':
            if name in ('lock', 'unlock'):
                return 'cstl_std_mutex_%s(&%s)' % (name, self.expr(base))
        if bt.k in ('opt',):
            if name == 'has_value':
                return '%s.has' % self.expr(base)
            if name == 'value':
                return 'cstl_opt_value(&%s)' % self.expr(base)
            if name == 'reset' and not args:
                return '(%s = (cstl_opt){false, 0})' % self.expr(base)
            if name == 'operator bool' and not args:
                return '%s.has' % self.expr(base)
            abort('optional operation without a rule: ' + name, e)
        if bt.k in ('list', 'hash', 'map', 'mmap', 'vector'):
            m = self.model_for_container(bt, e)
            if m is None:
                abort('container expression without a model: ' + bt.src, e)
            b = self.expr(base)
            self.note_member_op(sb, name)
            if bt.k in ('hash', 'map', 'mmap') and name == 'insert' and len(args) == 1:
                # insert(pair) == emplace(first, second); the pair is taken apart before it would be built
                kv = self.pair_parts(args[0])
                if kv:
                    return '%s_emplace(%s, &%s, %s, %s)' % (m.name, self.pool(m), b, kv[0], kv[1])
                abort('insert of something that is not written as a pair of two expressions', e)
            A = [self.expr(a) for a in args]
            if bt.k == 'vector':
                if name in ('size', 'capacity') and not A:
                    return '%s_%s(&%s)' % (m.name, name, b)
                if name == 'empty' and not A:
                    return '(%s_size(&%s) == 0)' % (m.name, b)
                if name == 'at' and len(A) == 1:
                    return '(*%s_at(&%s, %s))' % (m.name, b, A[0])
                if name == 'begin':
                    return '%s.data' % b
                if name == 'end':
                    return '(%s.data + %s.size)' % (b, b)
                abort('vector operation without a rule: ' + name, e)
            P = self.pool(m)
            if bt.k == 'list':
                if name in ('begin', 'end') and not A:
                    return '%s_%s(%s, &%s)' % (m.name, name, P, b)
                if name == 'size' and not A:
                    return '%s_size(&%s)' % (m.name, b)
                if name == 'back' and not A:
                    return '(*%s_back(%s, &%s))' % (m.name, P, b)
                if name == 'clear' and not A:
                    return '%s_clear(%s, &%s)' % (m.name, P, b)
                if name == 'splice' and len(A) == 3:
                    if A[1] != b:
                        abort('splice from a different list', e)
                    return '%s_splice(%s, &%s, %s, %s)' % (m.name, P, b, A[0], A[2])
                if name == 'splice' and len(A) == 4:
                    if A[1] != b:
                        abort('splice from a different list', e)
                    return '%s_splice_range(%s, &%s, %s, %s, %s)' % (m.name, P, b, A[0], A[2], A[3])
                if name == 'erase' and len(A) == 1:
                    return '%s_erase(%s, &%s, %s)' % (m.name, P, b, A[0])
                if name == 'erase' and len(A) == 2:
                    return '%s_erase_range(%s, &%s, %s, %s)' % (m.name, P, b, A[0], A[1])
                if name == 'front' and not A:
                    return '(*%s_deref(%s, %s_begin(%s, &%s)))' % (m.name, P, m.name, P, b)
                if name == 'empty' and not A:
                    return '(%s_size(&%s) == 0)' % (m.name, b)
                if name in ('push_back',) and len(A) == 1:
                    return '%s_emplace_back(%s, &%s, %s)' % (m.name, P, b, A[0])
                if name in ('insert', 'emplace') and len(A) == 2 and self.cls(args[0]).k == 'iter' and m.el.k != 'record':
                    return '%s_emplace(%s, &%s, %s, %s)' % (m.name, P, b, A[0], A[1])
                if name == 'emplace' and len(A) >= 2 and self.cls(args[0]).k == 'iter' and m.el.k == 'record':
                    # emplace(pos, ctor args...): the element constructor initialises the fields positionally
                    self.check_positional_ctor(m.el, len(A) - 1, e)
                    return '%s_emplace(%s, &%s, %s, (%s){%s})' % (m.name, P, b, A[0], self.ctype(m.el), ', '.join(A[1:]))
                if name == 'insert' and len(A) == 2 and self.cls(args[0]).k == 'iter' and m.el.k == 'record':
                    return '%s_emplace(%s, &%s, %s, %s)' % (m.name, P, b, A[0], A[1])
                if name in ('push_front', 'emplace_front') and len(A) == 1 and m.el.k != 'record':
                    return '%s_emplace(%s, &%s, %s_begin(%s, &%s), %s)' % (m.name, P, b, m.name, P, b, A[0])
                if name == 'pop_back' and not A:
                    return '%s_erase(%s, &%s, %s_prev(%s, %s_end(%s, &%s)))' % (m.name, P, b, m.name, P, m.name, P, b)
                if name == 'pop_front' and not A:
                    return '%s_erase(%s, &%s, %s_begin(%s, &%s))' % (m.name, P, b, m.name, P, b)
                if name == 'push_back' and len(A) == 1 and m.el.k == 'record':
                    return '%s_emplace_back(%s, &%s, %s)' % (m.name, P, b, A[0])
                if name == 'emplace_back':
                    if m.el.k == 'record':
                        self.check_positional_ctor(m.el, len(A), e)
                        return '%s_emplace_back(%s, &%s, (%s){%s})' % (m.name, P, b, self.ctype(m.el), ', '.join(A))
                    if len(A) == 1:
                        return '%s_emplace_back(%s, &%s, %s)' % (m.name, P, b, A[0])
                abort('list operation without a rule: %s/%d' % (name, len(A)), e)
            if bt.k in ('hash', 'map'):
                if name == 'find' and len(A) == 1:
                    return '%s_find(%s, &%s, %s)' % (m.name, P, b, A[0])
                if name == 'end' and not A:
                    return '%s_end(%s, &%s)' % (m.name, P, b)
                if name == 'size' and not A:
                    return '%s_size(&%s)' % (m.name, b)
                if name == 'emplace' and len(A) == 2:
                    return '%s_emplace(%s, &%s, %s, %s)' % (m.name, P, b, A[0], A[1])
                if name == 'erase' and len(A) == 1:
                    at = self.cls(args[0])
                    if at.k != 'iter':
                        if at.k != 'u64':
                            abort('erase by key on map: key type', e)
                        # erase(key): find, erase(it) when present, the number erased (0 or 1)
                        k_ = self.fresh('ek')
                        return '({ cstl_iter %s = %s_find(%s, &%s, %s); (%s != %s_end(%s, &%s)) ? (%s_erase(%s, &%s, %s), (uint64_t)1) : (uint64_t)0; })' % (
                            k_, m.name, P, b, A[0], k_, m.name, P, b, m.name, P, b, k_)
                    return '%s_erase(%s, &%s, %s)' % (m.name, P, b, A[0])
                if name == 'clear' and not A:
                    return '%s_clear(%s, &%s)' % (m.name, P, b)
                if name == 'count' and len(A) == 1:
                    return '((uint64_t)(%s_find(%s, &%s, %s) != %s_end(%s, &%s)))' % (m.name, P, b, A[0], m.name, P, b)
                if name == 'empty' and not A:
                    return '(%s_size(&%s) == 0)' % (m.name, b)
                if bt.k == 'hash' and name in ('reserve', 'max_load_factor') and len(A) == 1:
                    return '%s_%s(%s, &%s, %s)' % (m.name, name, P, b, A[0])
                abort('map operation without a rule: %s/%d' % (name, len(A)), e)
            if bt.k == 'mmap':
                if name == 'begin' and not A:
                    return '%s_begin(%s, &%s)' % (m.name, P, b)
                if name == 'end' and not A:
                    return '%s_end(%s, &%s)' % (m.name, P, b)
                if name == 'size' and not A:
                    return '%s_size(&%s)' % (m.name, b)
                if name == 'empty' and not A:
                    return '(%s_size(&%s) == 0)' % (m.name, b)
                if name == 'emplace' and len(A) == 2:
                    return '%s_emplace(%s, &%s, %s, %s)' % (m.name, P, b, A[0], A[1])
                if name == 'erase' and len(A) == 1:
                    return '%s_erase(%s, &%s, %s)' % (m.name, P, b, A[0])
                if name == 'clear' and not A:
                    return '%s_clear(%s, &%s)' % (m.name, P, b)
                abort('multimap operation without a rule: %s/%d' % (name, len(A)), e)
        abort('member call %s on %s without a rule' % (name, bt.src), e)

    def note_member_op(self, sb, opname):
        if sb['kind'] == 'MemberExpr' and self.strip_wrappers(sb['inner'][0])['kind'] == 'CXXThisExpr' and not self.is_ctor:
            self.em.info['member_ops'].setdefault(sb['name'], [])
            if opname not in self.em.info['member_ops'][sb['name']]:
                self.em.info['member_ops'][sb['name']].append(opname)

    def check_positional_ctor(self, el, nargs, e):
        rn = el.rec
        node = self.cx.rec_nodes.get(rn)
        for c in node.get('inner', []):
            if c['kind'] == 'CXXConstructorDecl' and not c.get('isImplicit'):
                ps = [x for x in c['inner'] if x['kind'] == 'ParmVarDecl']
                if len(ps) != nargs:
                    continue
                inits = [x for x in c['inner'] if x['kind'] == 'CXXCtorInitializer']
                fields = [f[0] for f in self.cx.records['%s__%s' % (self.cx.name, rn)]]
                ok = len(inits) == nargs
                for i, ini in enumerate(inits):
                    if not ok:
                        break
                    if ini['anyInit']['name'] != fields[i]:
                        ok = False
                    x = self.strip_wrappers(ini['inner'][0])
                    while x['kind'] in ('CXXConstructExpr', 'ImplicitCastExpr') and x.get('inner'):
                        x = self.strip_wrappers(x['inner'][0])
                    if x['kind'] != 'DeclRefExpr' or x['referencedDecl']['id'] != ps[i]['id']:
                        ok = False
                body = [x for x in c['inner'] if x['kind'] == 'CompoundStmt']
                if body and body[0].get('inner'):
                    ok = False
                if ok:
                    return
        abort('emplace_back: element constructor is not a positional field initialisation', e)

    def default_arg_of(self, cn, i, a, e):
        for md in self.cx.methods:
            if md['cname'] == cn:
                ps = [x for x in md['node']['inner'] if x['kind'] == 'ParmVarDecl']
                init = [x for x in ps[i].get('inner', []) if isinstance(x, dict) and x.get('kind', '').endswith(('Expr', 'Literal', 'Operator'))] if i < len(ps) else []
                if len(init) == 1:
                    return init[0]
                abort('defaulted argument %d of %s: the default expression is not in the AST' % (i, cn), e)
        abort('own method not found: ' + cn)

    def arg_for_own(self, cn, i, a):
        # own methods: find callee param kinds
        for md in self.cx.methods:
            if md['cname'] == cn:
                ps = [x for x in md['node']['inner'] if x['kind'] == 'ParmVarDecl']
                t = self.cls(ps[i])
                byptr = t.k == 'vector' or ((t.isref or t.isrref) and not (t.k in ('u64', 'i64', 'int', 'bool', 'tp', 'ms', 'iter', 'float') and (t.isconst or t.isrref)))
                x = self.expr(a)
                if byptr:
                    sa = self.strip_wrappers(a)
                    v = self.vars.get(sa.get('referencedDecl', {}).get('id')) if sa['kind'] == 'DeclRefExpr' else None
                    if v and v.get('alias'):
                        return '&(%s)' % v['alias']
                    if v and v['ref']:
                        return v['c']
                    return '&(%s)' % x
                return x
        abort('own method not found: ' + cn)

    def x_CXXOperatorCallExpr(self, e):
        name, c = self.callee_name(e)
        args = e['inner'][1:]
        a0 = args[0]
        t0 = self.cls(a0)
        op = name.replace('operator', '')
        if op == '()' and t0.k == 'dist':
            sa = self.strip_wrappers(a0)
            d = self.dists.get(sa.get('referencedDecl', {}).get('id'))
            if not d:
                abort('distribution object unknown', e)
            return 'cstl_rand_range(%s, %s)' % d
        if op == '[]':
            if t0.k == 'vector':
                m = self.model_for_container(t0, e)
                sb = self.strip_wrappers(a0)
                self.note_member_op(sb, 'operator[]')
                return '(*%s_at(&%s, %s))' % (m.name, self.expr(a0), self.expr(args[1]))
            abort('operator[] on %s' % t0.src, e)
        if op in ('!=', '==', '<', '<=', '>', '>='):
            t1 = self.cls(args[1])
            if t0.k in ('iter', 'ptr') and t1.k == t0.k and op in ('!=', '=='):
                return '(%s %s %s)' % (self.expr(a0), op, self.expr(args[1]))
            if t0.k == 'tp' and t1.k == 'tp':
                return '(%s %s %s)' % (self.expr(a0), op, self.expr(args[1]))
            if t0.k in ('ms', 'ns') and t1.k in ('ms', 'ns'):
                # std::chrono compares durations in their common type (here: the finer period, nanoseconds)
                def as_ns(t, x):
                    return x if t.k == 'ns' or t0.k == t1.k else 'cstl_ms_to_ns(%s)' % x
                return '(%s %s %s)' % (as_ns(t0, self.expr(a0)), op, as_ns(t1, self.expr(args[1])))
            abort('comparison %s between %s and %s' % (op, t0.src, t1.src), e)
        if op == '+':
            t1 = self.cls(args[1])
            if t0.k == 'tp' and t1.k == 'ms':
                return 'cstl_tp_add_ms(%s, %s)' % (self.expr(a0), self.expr(args[1]))
            if t0.k == 'tp' and t1.k == 'ns':
                return 'cstl_tp_add_ns(%s, %s)' % (self.expr(a0), self.expr(args[1]))
            abort('operator+ between %s and %s' % (t0.src, t1.src), e)
        if op == '-' and len(args) == 2:
            t1 = self.cls(args[1])
            if t0.k == 'tp' and t1.k == 'tp':
                return 'cstl_tp_diff(%s, %s)' % (self.expr(a0), self.expr(args[1]))
            abort('operator- between %s and %s' % (t0.src, t1.src), e)
        if op == '*' and len(args) == 1:
            if t0.k == 'ptr':
                return '(*%s)' % self.expr(a0)
            if t0.k == 'iter':
                m = self.model_for_iter(t0, e)
                return '(*%s_deref(%s, %s))' % (m.name, self.pool(m), self.expr(a0))
            if t0.k == 'opt':
                return 'cstl_opt_value(&(%s))' % self.expr(a0)
            abort('unary * on %s' % t0.src, e)
        if op == '->':
            if t0.k == 'iter':
                m = self.model_for_iter(t0, e)
                return '%s_deref(%s, %s)' % (m.name, self.pool(m), self.expr(a0))
            abort('operator-> on %s' % t0.src, e)
        if op in ('++', '--'):
            if len(args) != 1:
                if t0.k == 'iter' and t0.fam == 'list':
                    # it++ / it--: the old value is the result
                    m = self.model_for_iter(t0, e)
                    x = self.expr(a0)
                    o = self.fresh('old')
                    return '({ cstl_iter %s = %s; %s = %s_%s(%s, %s); %s; })' % (o, x, x, m.name, 'next' if op == '++' else 'prev', self.pool(m), x, o)
                abort('postfix ++/-- on an iterator', e)
            x = self.expr(a0)
            if t0.k == 'ptr':
                return '(%s%s)' % (op, x)
            if t0.k == 'iter' and t0.fam == 'list':
                m = self.model_for_iter(t0, e)
                sa0 = self.strip_wrappers(a0)
                while sa0['kind'] in ('MaterializeTemporaryExpr', 'ImplicitCastExpr', 'ExprWithCleanups', 'CXXBindTemporaryExpr') and sa0.get('inner'):
                    sa0 = sa0['inner'][0]
                if sa0['kind'] in ('CXXMemberCallExpr', 'CallExpr', 'CXXOperatorCallExpr', 'CXXConstructExpr'):
                    # ++/-- applied to a temporary (`--list.end()`): only the value is used
                    return '%s_%s(%s, %s)' % (m.name, 'next' if op == '++' else 'prev', self.pool(m), x)
                return '(%s = %s_%s(%s, %s))' % (x, m.name, 'next' if op == '++' else 'prev', self.pool(m), x)
            if t0.k == 'iter' and t0.fam == 'tree' and op == '++' and self.model_for_iter(t0, e).kind == 'mmap':
                m = self.model_for_iter(t0, e)
                return '(%s = %s_next(%s, %s))' % (x, m.name, self.pool(m), x)
            abort('%s on %s' % (op, t0.src), e)
        if op == '=':
            t1 = self.cls(args[1])
            lhs = self.expr(a0)
            if t0.k == 'opt':
                if t1.k == 'nullopt':
                    return '(%s = (cstl_opt){false, 0})' % lhs
                if t1.k == 'opt':
                    return '(%s = %s)' % (lhs, self.expr(args[1]))
                if t1.k in ('u64', 'iter'):
                    return '(%s = (cstl_opt){true, %s})' % (lhs, self.expr(args[1]))
                abort('optional assignment from %s' % t1.src, e)
            if t0.k in ('iter', 'tp', 'ms', 'record', 'pair') and t1.k == t0.k:
                return '(%s = %s)' % (lhs, self.expr(args[1]))
            abort('operator= on %s from %s' % (t0.src, t1.src), e)
        abort('overloaded operator %s on %s without a rule' % (op, t0.src), e)


EXPR_KINDS = set(x[2:] for x in dir(FuncEmitter) if x.startswith('x_'))


# ------------------------------------------------------------------------------------------------


def main():
    import argparse
    ap = argparse.ArgumentParser()
    ap.add_argument('ast')
    ap.add_argument('outdir')
    ap.add_argument('--lockcov', action='store_true')
    a = ap.parse_args()
    try:
        objs = load_objs(a.ast)
        em = Emitter(objs, lockcov=a.lockcov)
        os.makedirs(a.outdir, exist_ok=True)
        em.info = dict(member_ops={})
        open(os.path.join(a.outdir, 'gen_common.h'), 'w').write(em.emit_common())
        infos = []
        for name, ts, spec in em.specializations():
            cx = em.build_class(name, ts, spec)
            h, c, info = em.emit_class(cx)
            open(os.path.join(a.outdir, cx.cname + '.h'), 'w').write(h)
            open(os.path.join(a.outdir, cx.cname + '.c'), 'w').write(c)
            infos.append(info)
        json.dump(infos, open(os.path.join(a.outdir, 'info.json'), 'w'), indent=1)
    except Abort as ex:
        sys.stderr.write('EXTRACTION-BREAK: %s\n' % ex)
        sys.exit(2)


if __name__ == '__main__':
    main()
