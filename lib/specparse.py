"""specparse.py -- parser for contracts/<container>.spec and insertion of the clauses into the
generated C (each clause on its own line so that CBMC's source locations identify the obligation)."""
import re


class SpecError(Exception):
    pass


class Clause:
    def __init__(self, kind, cid, tags, expr, lineno):
        self.kind, self.id, self.tags, self.expr, self.lineno = kind, cid, tags, expr, lineno


class FuncSpec:
    def __init__(self, name):
        self.name = name
        self.clauses = []
        self.opts = {}


class Spec:
    def __init__(self):
        self.container = None
        self.header = None
        self.props = []
        self.canon = None
        self.funcs = {}
        self.order = []


def parse(path):
    sp = Spec()
    cur = None
    for ln, raw in enumerate(open(path), 1):
        line = raw.strip()
        if not line or line.startswith('#'):
            continue
        if cur is None:
            m = re.match(r'^(container|header|props|canon)\s+(.*)$', line)
            if m:
                if m.group(1) == 'props':
                    sp.props = m.group(2).split()
                else:
                    setattr(sp, m.group(1), m.group(2).strip())
                continue
            m = re.match(r'^function\s+(\w+)$', line)
            if m:
                cur = FuncSpec(m.group(1))
                continue
            raise SpecError('%s:%d: unexpected line outside function: %s' % (path, ln, line))
        if line == 'end':
            sp.funcs[cur.name] = cur
            sp.order.append(cur.name)
            cur = None
            continue
        m = re.match(r'^requires\s+(\w+)\s*:\s*(.*)$', line)
        if m:
            cur.clauses.append(Clause('requires', m.group(1), [], m.group(2), ln))
            continue
        m = re.match(r'^ensures\s+(\w+)\s*\[([^\]]*)\]\s*:\s*(.*)$', line)
        if m:
            tags = m.group(2).split()
            if tags == ['*']:
                tags = list(sp.props)
            cur.clauses.append(Clause('ensures', m.group(1), tags, m.group(3), ln))
            continue
        m = re.match(r'^(\w+)\s*=\s*(.*)$', line)
        if m:
            cur.opts[m.group(1)] = m.group(2).strip()
            continue
        raise SpecError('%s:%d: cannot parse: %s' % (path, ln, line))
    if cur is not None:
        raise SpecError('%s: function %s not closed' % (path, cur.name))
    return sp


def expand(expr):
    expr = re.sub(r'\bOLD\b', '__CPROVER_old(*self)', expr)
    expr = re.sub(r'\bRET\b', '__CPROVER_return_value', expr)
    return expr


def insert_contracts(csrc, spec, extra_includes, extra_requires=None, only=None):
    """replace /*@CONTRACT fn@*/ markers; returns (text, linemap) where linemap maps line number of
    the produced file -> (function, clause)"""
    out = []
    linemap = {}
    missing = set(spec.funcs)
    for line in csrc.split('\n'):
        m = re.match(r'^/\*@CONTRACT (\w+)@\*/$', line)
        if not m:
            out.append(line)
            continue
        fn = m.group(1)
        fs = spec.funcs.get(fn)
        if not fs:
            out.append('/* no contract: verified inlined into its callers */')
            continue
        missing.discard(fn)
        if only is not None and fn not in only:
            out.append('/* contract in contracts/%s.spec (not needed by this proof unit) */' % spec.container)
            continue
        out.append('__CPROVER_requires(__CPROVER_is_fresh(self, sizeof(*self)))')
        for c in fs.clauses:
            if c.kind == 'requires':
                out.append('__CPROVER_requires(%s)' % expand(c.expr))
                linemap[len(out)] = (fn, c)
        for x in (extra_requires or {}).get(fn, []):
            out.append('__CPROVER_requires(%s)' % expand(x))
        out.append('__CPROVER_assigns(__CPROVER_object_whole(self)%s)' % (''.join(', ' + a for a in fs.opts.get('assigns', '').split(';') if a.strip())))
        for c in fs.clauses:
            if c.kind == 'ensures':
                out.append('__CPROVER_ensures(%s)' % expand(c.expr))
                linemap[len(out)] = (fn, c)
    head = ''.join('#include "%s"\n' % h for h in extra_includes)
    nhead = head.count('\n')
    # shift the line map by the include lines inserted after the first line (#include "<cls>.h")
    lines = out
    first = lines[0]
    text = first + '\n' + head + '\n'.join(lines[1:])
    linemap = {k + nhead: v for k, v in linemap.items()}
    return text, linemap, sorted(missing)
