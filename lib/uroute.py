"""uroute.py -- route U: unbounded-capacity proof units (cbmc --z3 over cstl_u models and contracts_u harnesses)"""
import os, re, json, time
import engine

HARNESSES = {
    'ut_map': ['do_find', 'do_erase', 'do_update', 'do_insert', 'do_insert_update', 'do_prune', 'insert', 'erase', 'find', 'clean_expired_values'],
    'ut_set': ['do_find', 'do_erase', 'do_update', 'do_insert', 'do_insert_update', 'do_prune', 'insert', 'erase', 'find', 'clean_expired_values'],
    'tlru_cache': ['do_erase', 'do_prune', 'do_find', 'do_update', 'find', 'erase'],
    'lfu_cache': ['do_erase', 'do_prune', 'do_find', 'do_update', 'do_insert', 'do_insert_update', 'erase', 'insert', 'find_with_use_count'],
    'fifo_cache': ['do_find', 'do_update', 'find'],
    'rr_cache': ['do_erase', 'do_prune', 'do_find', 'do_update', 'do_insert', 'do_insert_update', 'find', 'erase', 'insert'],
    'mru_cache': ['do_erase', 'do_prune', 'do_find', 'do_update', 'do_insert', 'do_insert_update', 'find', 'erase', 'insert'],
    'lru_cache': ['do_erase', 'do_prune', 'do_find', 'do_update', 'do_insert', 'do_insert_update', 'find', 'erase', 'insert'],
}


QUICK = ('do_update', 'do_find')  # two to four minutes each for the list-based caches
QUICK_ALL = ('rr_cache',)                   # every unit of these containers finishes in about a minute
THOROUGH_ONLY = ('tlru_cache',)             # 5-25 minutes per unit: no unit of these containers in the quick tier


# harnesses that exist but whose z3 query did not finish within two hours (not registered in any check):
EXPERIMENTAL = {'fifo_cache': ['do_erase', 'do_insert', 'do_insert_update', 'erase', 'insert'],
                # tlru: do_insert (45 min) and insert (1 h 47 min) were proved once, do_insert_update did not finish in 2 h
                'tlru_cache': ['do_insert', 'do_insert_update', 'insert']}


# containers whose route U units are registered in the property checks (every unit validated on the unchanged tree)
REGISTERED = ('lru_cache', 'mru_cache', 'rr_cache', 'fifo_cache', 'lfu_cache', 'ut_map', 'ut_set', 'tlru_cache')


# calls replaced by a contract stub (assumed contract of a repository function that is only decided in route B)
_PR = lambda c: ['%s__do_prune:%s__do_prune_contract' % (c, c)]
REPLACE = {c: {f: _PR(c) for f in ('insert', 'erase', 'find', 'clean_expired_values')} for c in ('ut_map', 'ut_set')}
# route U units with a bound of their own (any number of stored entries, at most 2 of them expired at the call)
BOUNDED_U = {('ut_map', 'do_prune'): 'U-expired-le-2', ('ut_set', 'do_prune'): 'U-expired-le-2'}
DYNAMIC = ('ut_map', 'ut_set')  # containers whose list grows and shrinks: cstl_ud/cstl_list.h shadows cstl_u/cstl_list.h


class UUnit:
    def __init__(self, container, short, gen, timeout=7200):
        self.spec = None
        self.container, self.short, self.gen, self.timeout = container, short, gen, timeout
        self.fn = '%s__%s' % (container, short)
        # a route U unit that carries a bound of its own is not an 'every capacity' result: its id says so (not '/U/')
        self.id = '%s/%s' % (self.fn, BOUNDED_U.get((container, short), 'U'))
        self.maxcap = 0
        self.lockcov = False

    def key(self):
        fs = engine.files_under(os.path.join(engine.VERIF, 'cstl_u')) + (engine.files_under(os.path.join(engine.VERIF, 'cstl_ud')) if self.container in DYNAMIC else []) + [os.path.join(engine.VERIF, 'contracts_u', self.container + x) for x in ('_u.h', '_u.c')] + [os.path.join(engine.VERIF, 'cstl', 'cstl.h')]
        return engine.sha(self.id, engine.hash_files(fs), engine.file_bytes(os.path.join(self.gen, self.container + '.c')), engine.file_bytes(os.path.join(self.gen, self.container + '.h')),
                          engine.file_bytes(os.path.join(self.gen, 'gen_common.h')), 'u-v3')


def units_for_container(cn, gen):
    return [UUnit(cn, s, gen) for s in HARNESSES.get(cn, [])]


def run_u(unit, want_trace=False):
    key = unit.key()
    udir = os.path.join(engine.BUILD, 'units', key)
    resf = os.path.join(udir, 'result.json')
    if os.path.exists(resf) and not want_trace:
        try:
            r = json.load(open(resf))
            if not (r.get('status') == 'timeout' and r.get('timeout_s', 7200) < unit.timeout):  # a longer limit may decide it
                os.utime(udir)
                r['cached'] = True
                return r
        except Exception:
            pass
    os.makedirs(udir, exist_ok=True)
    res = dict(unit=unit.id, container=unit.container, function=unit.fn, maxcap=0, key=key, cached=False, replaced=[], route='U')
    gb = os.path.join(udir, 'u.%d.gb' % os.getpid())
    inc = (['-I' + os.path.join(engine.VERIF, 'cstl_ud')] if unit.container in DYNAMIC else []) + ['-I' + os.path.join(engine.VERIF, 'cstl_u'), '-I' + os.path.join(engine.VERIF, 'cstl'), '-I' + os.path.join(engine.VERIF, 'contracts_u'), '-I' + unit.gen]
    cmd1 = ['goto-cc', '-DCSTL_CBMC'] + inc + ['--function', 'h_' + unit.short, os.path.join(engine.VERIF, 'contracts_u', unit.container + '_u.c'), '-o', gb]
    rc, out, err, _ = engine.run(cmd1, timeout=120)
    if rc != 0:
        res.update(status='error', error='goto-cc: ' + (out + err)[-1500:])
        return res
    rep = REPLACE.get(unit.container, {}).get(unit.short)
    if rep:
        # a callee outside route U is replaced by its (assumed) contract: a stub function of the harness file
        gb2 = gb + '.r.gb'
        rc, out, err, _ = engine.run(['goto-instrument'] + [x for r in rep for x in ('--replace-calls', r)] + [gb, gb2], timeout=120)
        try:
            os.remove(gb)
        except OSError:
            pass
        if rc != 0:
            res.update(status='error', error='goto-instrument --replace-calls: ' + (out + err)[-1500:])
            return res
        res['replaced'] = list(rep)
        gb = gb2
    cmd3 = ['cbmc', gb, '--z3', '--nondet-static', '--no-pointer-check', '--no-standard-checks', '--unwind', '26', '--unwinding-assertions', '--json-ui'] + (['--trace'] if want_trace else [])
    t0 = time.time()
    rc, out, err, secs = engine.run(cmd3, timeout=unit.timeout, mem_kb=24000000)
    res['checker_cmd'] = 'goto-cc -DCSTL_CBMC -Icstl_u -Icstl -Icontracts_u -I<gen> --function h_%s contracts_u/%s_u.c && cbmc u.gb --z3 --nondet-static --no-pointer-check --no-standard-checks --unwind 26 --unwinding-assertions' % (unit.short, unit.container)
    res['solver_s'] = round(secs, 2)
    try:
        os.remove(gb)
    except OSError:
        pass
    if rc == -9:
        res.update(status='timeout', error='cbmc --z3 timeout after %ds' % unit.timeout, timeout_s=unit.timeout)
        json.dump(res, open(resf, 'w'))
        return res
    try:
        msgs = json.loads(out)
    except Exception:
        res.update(status='error', error='cbmc output not JSON: ' + (out[-800:] + err[-800:]))
        return res
    results = None
    for m in msgs:
        if isinstance(m, dict) and 'result' in m:
            results = m['result']
    if results is None:
        res.update(status='error', error='cbmc produced no result: ' + out[-1500:])
        return res
    obl = []
    for r in results:
        desc = r.get('description', '')
        prop = r.get('property', '')
        loc = r.get('sourceLocation', {})
        base = dict(prop=prop, desc=desc, status=r.get('status'), file=os.path.basename(loc.get('file', '')), line=int(loc.get('line', 0) or 0), function=loc.get('function', ''))
        if base['function'].startswith('h_') and base['function'] != 'h_' + unit.short:
            continue  # another harness of the same file (unreachable from this entry point)
        m = re.search(r'\[((?:C\d+\s*)+)\]', desc)
        if 'vacuity sentinel' in desc:
            o = dict(base, id=unit.id + '/vacuity', kind='vacuity', tags=[])
        elif desc.startswith('model bound') or desc.startswith('spec sanity') or 'unwinding assertion' in desc:
            o = dict(base, id=unit.id + '/bound:' + prop, kind='spec-sanity', tags=[])
        elif desc.startswith('U ') and m:
            o = dict(base, id='%s/%s' % (unit.id, desc.split(' [')[0].split(': ', 1)[1][:70]), kind='postcondition-U', tags=m.group(1).split(), expr=desc)
        elif desc.startswith('std.') and m:
            o = dict(base, id='%s/%s@%s:%d' % (unit.id, desc.split(' [')[0], base['function'], base['line']), kind='std-precondition', tags=m.group(1).split())
        else:
            o = dict(base, id='%s/other:%s' % (unit.id, prop), kind='safety', tags=['C08'])
        obl.append(o)
    res['obligations'] = obl
    res['status'] = 'done'
    res['wall_s'] = round(time.time() - t0, 2)
    if all(o['status'] in ('SUCCESS', 'FAILURE') for o in obl):
        json.dump(res, open(resf, 'w'))
    return res
