"""realise.py -- look for a failing input on the REAL library for a refuted obligation.

Differential replay against the verified baseline: the native driver (real headers, virtual clock, seeded
engine for rr_cache) is built twice -- against /repo's working tree and against /repo's HEAD (the tree on which
every obligation is discharged) -- and both are driven through the same seeded random histories of public calls
on the container of the refuted obligation.  The first history on which an observable result differs is the
replay script.  (No difference found => the VIOLATION line says no-failing-input-found.)"""
import os, re, json, subprocess, hashlib
import engine


def container_of(o):
    m = re.match(r'(\w+?)__', o.get('function') or o['id'])
    return m.group(1) if m else None


def build_baseline(gdir):
    head = subprocess.run(['git', '-C', engine.REPO, 'rev-parse', 'HEAD'], stdout=subprocess.PIPE, text=True).stdout.strip()
    if not head:
        return None
    bdir = os.path.join(engine.BUILD, 'baseline-' + head[:12])
    drv = os.path.join(bdir, 'driver-' + os.path.basename(gdir))
    if os.path.exists(drv):
        return drv
    os.makedirs(bdir, exist_ok=True)
    inc = os.path.join(bdir, 'inc')
    if not os.path.isdir(inc):
        os.makedirs(inc)
        p = subprocess.run('git -C %s archive HEAD inc | tar -x -C %s' % (engine.REPO, bdir), shell=True)
        if p.returncode != 0:
            return None
    gen = os.path.join(gdir, 'gen')
    objs = sorted(x for x in (os.path.join(gdir, 'native', f) for f in os.listdir(os.path.join(gdir, 'native'))) if x.endswith('.o'))
    rc, out, err, _ = engine.run(['g++', '-std=c++17', '-O1', '-fpermissive', '-w', '-DMAXCAP=4', '-I' + inc, '-I' + os.path.join(engine.VERIF, 'cstl'), '-I' + gen,
                                  os.path.join(engine.VERIF, 'replay', 'driver.cpp'), os.path.join(engine.VERIF, 'replay', 'replay.cpp')] + objs + ['-o', drv, '-lpthread'], timeout=600, mem_kb=0)
    return drv if rc == 0 else None


def trace(drv, container, seed, histories, length, only=None):
    cmd = [drv, 'trace', container, str(seed), str(histories), str(length)] + ([str(only)] if only is not None else [])
    rc, out, err, _ = engine.run(cmd, timeout=120, mem_kb=0)
    return rc, out.split('\n')


def search(prop, o, doc, gdir):
    cont = container_of(o)
    if not cont:
        return None
    cur = os.path.join(gdir, 'native', 'driver')
    base = build_baseline(gdir)
    if not (os.path.exists(cur) and base):
        return None
    def by_history(lines):
        out = {}
        for l in lines:
            m = re.match(r'H(\d+) S(\d+) ', l)
            if m and '->' in l:
                out.setdefault(int(m.group(1)), []).append(l)
        return out

    for seed in range(1, 9):
        rc1, a = trace(cur, cont, seed, 400, 60)
        rc2, b = trace(base, cont, seed, 400, 60)
        ha, hb = by_history(a), by_history(b)
        for h in sorted(hb):
            ca, cb = ha.get(h, []), hb[h]
            for k, (p, q) in enumerate(zip(ca, cb)):
                if p != q:
                    return dict(kind='differential-vs-baseline', container=cont, seed=seed, history=h, diverging_step=k,
                                calls=[re.sub(r'^H\d+ S\d+ ', '', l) for l in ca[:k + 1]],
                                working_tree_result=p.split('->')[1].strip(), baseline_result=q.split('->')[1].strip(),
                                note='results are printed as integers: booleans 0/1, optionals as (has, value), counts; @ is the virtual clock in ns')
            if len(ca) < len(cb):
                # the working tree stopped inside this history: the real library crashed (undefined behaviour)
                return dict(kind='real-library-crash', container=cont, seed=seed, history=h, diverging_step=len(ca),
                            calls=[re.sub(r'^H\d+ S\d+ ', '', l) for l in cb[:len(ca) + 1]], working_tree_result='crash (exit status %d)' % rc1,
                            baseline_result=cb[len(ca)].split('->')[1].strip(),
                            note='the real library crashed (or stopped) while executing the LAST call listed, with the change applied; the baseline completes it')
    return None


def run_script(doc):
    sc = doc['script']
    gdir = engine.ensure_gen()
    cur = os.path.join(gdir, 'native', 'driver')
    base = build_baseline(gdir)
    rc1, a = trace(cur, sc['container'], sc['seed'], sc['history'] + 1, 60, sc['history'])
    rc2, b = trace(base, sc['container'], sc['seed'], sc['history'] + 1, 60, sc['history'])
    for x, y in zip(a, b):
        if x != y:
            print('REPLAY: working tree : ' + x)
            print('REPLAY: baseline HEAD: ' + y)
            print('REPLAY: the failing input reproduces (property %s, obligation %s)' % (doc.get('property'), doc.get('obligation')))
            return 1
    if (rc1 != 0 and rc2 == 0) or len([l for l in a if l.startswith('H')]) < len([l for l in b if l.startswith('H')]):
        print('REPLAY: the real library crashes on the recorded history with the change applied (property %s, obligation %s)' % (doc.get('property'), doc.get('obligation')))
        return 1
    print('REPLAY: no divergence on the recorded history (the working tree now agrees with the baseline)')
    return 0
