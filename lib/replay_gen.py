"""replay_gen.py -- from a refuted obligation to a replay file (and, where possible, a failing input
executed against the real library)"""
import os, json, re, time
import engine


def trace_summary(trace):
    """pre-state values of interesting variables: first assignment of each lhs"""
    first = {}
    for st in trace:
        if st.get('stepType') != 'assignment' or st.get('hidden'):
            continue
        lhs = st.get('lhs')
        if lhs is None or lhs in first:
            continue
        v = st.get('value', {})
        first[lhs] = v.get('data', v.get('name'))
    return first


def make_replay(prop, o, unit, gdir):
    outdir = os.path.join(engine.VERIF, 'replay', 'out')
    os.makedirs(outdir, exist_ok=True)
    name = re.sub(r'[^A-Za-z0-9_.-]+', '_', '%s-%s' % (prop, o['id']))[:150]
    path = os.path.join(outdir, name + '.json')
    doc = dict(property=prop, obligation=o['id'], kind=o['kind'], function=o.get('function'), description=o['desc'], expr=o.get('expr'),
               status=o['status'], verifier='cbmc 6.11.0 (goto-instrument --dfcc --enforce-contract)', found_failing_input=False)
    tr = None
    if unit is not None:
        try:
            r = engine.run_unit(unit, want_trace=True)
            tr = (r.get('traces') or {}).get(o['id'])
            doc['checker_cmd'] = r.get('checker_cmd')
        except Exception as ex:
            doc['trace_error'] = str(ex)
    if tr:
        summ = trace_summary(tr)
        keep = {k: v for k, v in summ.items() if not k.startswith('__CPROVER') and 'return_value' not in k}
        doc['counterexample_prestate'] = dict(list(keep.items())[:400])
    found = False
    try:
        import realise
        script = realise.search(prop, o, doc, gdir)
        if script:
            doc['script'] = script
            doc['found_failing_input'] = True
            found = True
    except ImportError:
        pass
    except Exception as ex:
        doc['realise_error'] = str(ex)
    json.dump(doc, open(path, 'w'), indent=1)
    return os.path.relpath(path, engine.VERIF), found


def rerun(path):
    doc = json.load(open(path))
    if not doc.get('script'):
        print('replay file carries no executable script (no-failing-input-found); obligation: %s' % doc.get('obligation'))
        return 2
    import realise
    return realise.run_script(doc)
