"""rel.py -- C18: relational (product) harnesses "range operation == the same single operations in order".

For every range method the harness takes an ARBITRARY well-formed state twice (s2 = s1), runs the extracted
range method on s1 and the extracted single-key public method once per element, in order, on s2, at one clock
instant (G_NOW) and one random outcome (G_RAND), and asserts equal results and equal views at the ghost key.
Bounded: range length <= RLEN, capacity <= MAXCAP (labelled bounded).  No DFCC: these are plain CBMC harnesses
over the same extracted text; the single-key methods carry their own contracts elsewhere."""
import os, json, time
import engine

RLEN = 2

# container -> (spec prefix, struct, has peek arg ('enum'|'bool'|None), insert element shape, ttl member or None)
CONF = {
    'lru_cache': ('lru', 'peek', 'kv'),
    'mru_cache': ('mru', 'peek', 'kv'),
    'tlru_cache': ('tlru', 'peek', 't3'),
    'utlru_cache': ('utlru', 'peek', 'kv'),
    'lfu_cache': ('lfu', 'peek', 'kv'),
    'lfuda_cache': ('lfuda', 'peek', 'kv'),
    'rr_cache': ('rr', None, 'kv'),
    'fifo_cache': ('fifo', None, 'kv'),
    'ut_map': ('utm', None, 'kv'),
    'ut_set': ('uts', None, 'k'),
}

EXTRA_PRE = {
    'tlru_cache': '__CPROVER_assume(G_NOW >= 0 && G_NOW <= (INT64_MAX >> 1));',
    'utlru_cache': '__CPROVER_assume(utlru_ttl_ok(G_NOW, s1.m_ttl));',
    'lfuda_cache': '__CPROVER_assume(lfuda_time_ok(&s1, G_NOW) && lfuda_ratio_ok(&s1));',
    'lfu_cache': '__CPROVER_assume(lfu_counts_ok(&s1));',
    'ut_map': '__CPROVER_assume(utm_time_ok(&s1, G_NOW) && utm_size(&s1) + RLEN <= MAXCAP);',
    'ut_set': '__CPROVER_assume(uts_time_ok(&s1, G_NOW) && uts_size(&s1) + RLEN <= MAXCAP);',
}


def ops_for(cn):
    pfx, peek, shape = CONF[cn]
    pk = ', peek' if peek else ''
    ops = []
    # insert_range
    if shape == 'kv':
        ops.append(('insert_range', 'cstl_pair', 'cstl_range_kv', '%s__insert_range(&s1, &r1, a)' % cn, '%s__insert(&s2, d2[i].first, d2[i].second, a)' % cn, 'count'))
    elif shape == 't3':
        ops.append(('insert_range', 'cstl_tuple3', 'cstl_range_t3', '%s__insert_range(&s1, &r1, a)' % cn, '%s__insert(&s2, d2[i]._0, d2[i]._1, d2[i]._2, a)' % cn, 'count'))
    else:
        ops.append(('insert_range', 'uint64_t', 'cstl_range_k', '%s__insert_range(&s1, &r1, a)' % cn, '%s__insert(&s2, d2[i], a)' % cn, 'count'))
    ops.append(('erase_range', 'uint64_t', 'cstl_range_k', '%s__erase_range(&s1, &r1)' % cn, '%s__erase(&s2, d2[i])' % cn, 'count'))
    if cn == 'ut_set':
        ops.append(('find_range', 'uint64_t', 'cstl_range_k', '%s__find_range(&s1, &r1%s)' % (cn, pk), '%s__find(&s2, d2[i]%s)' % (cn, pk), 'outvec_kb'))
        ops.append(('find_range_fill', 'cstl_pair_kb', 'cstl_range_kb', '%s__find_range_fill(&s1, &r1%s)' % (cn, pk), '%s__find(&s2, d2[i].first%s)' % (cn, pk), 'fill_kb'))
    else:
        ops.append(('find_range', 'uint64_t', 'cstl_range_k', '%s__find_range(&s1, &r1%s)' % (cn, pk), '%s__find(&s2, d2[i]%s)' % (cn, pk), 'outvec'))
        ops.append(('find_range_fill', 'cstl_pair_kopt', 'cstl_range_kopt', '%s__find_range_fill(&s1, &r1%s)' % (cn, pk), '%s__find(&s2, d2[i].first%s)' % (cn, pk), 'fill'))
    if cn == 'fifo_cache':
        ops.append(('insert__it', 'cstl_pair', None, 'fifo_cache__insert__it(&s1, d1, d1 + n, a)', 'fifo_cache__insert(&s2, d2[i].first, d2[i].second, a)', 'count'))
        ops.append(('erase__it', 'uint64_t', None, 'fifo_cache__erase__it(&s1, d1, d1 + n)', 'fifo_cache__erase(&s2, d2[i])', 'count'))
        ops.append(('find__it', 'uint64_t', None, 'fifo_cache__find__it(&s1, d1, d1 + n, dist)', 'fifo_cache__find(&s2, d2[i])', 'outvec'))
        ops.append(('find_range_fill__it', 'cstl_pair_kopt', None, 'fifo_cache__find_range_fill__it(&s1, d1, d1 + n)', 'fifo_cache__find(&s2, d2[i].first)', 'fill'))
    return ops


def harness(cn, op):
    pfx, peek, shape = CONF[cn]
    name, elem, rng, call1, call2, kind = op
    L = []
    L.append('void h_rel(void)')
    L.append('{')
    L.append('    %s s1, s2;' % cn)
    L.append('    /* ghost parameters are globals: make them nondeterministic (a plain harness zero-initialises statics) */')
    L.append('    { uint64_t g, h, r; int64_t now, ms, ns; G_g = g; G_h = h; G_RAND = r; G_NOW = now; G_MS = ms; G_NS = ns; }')
    L.append('    __CPROVER_assume(%s_wf(&s1) && !s1.m_lock.m_lock.held && %s_canon(&s1));' % (pfx, pfx))
    if cn in EXTRA_PRE:
        L.append('    ' + EXTRA_PRE[cn])
    L.append('    uint64_t n, a, dist; int peek;')
    L.append('    __CPROVER_assume(n <= RLEN && a >= 1 && a <= 3 && (peek == 0 || peek == 1));')
    L.append('    %s d1[RLEN], d2[RLEN];' % elem)
    L.append('    for (uint64_t i = 0; i < RLEN; i++) d2[i] = d1[i];')
    if shape == 't3' and name == 'insert_range':
        L.append('    for (uint64_t i = 0; i < RLEN; i++) __CPROVER_assume(d1[i]._0 == G_MS && tlru_ttl_ok(G_NOW, d1[i]._0)); /* one TTL value per call (conversion abstraction) */')
    L.append('    s2 = s1;')
    purge = cn in ('ut_map', 'ut_set')
    if purge:
        # ut_map/ut_set: every public operation, range or single, first purges the entries expired at `now` (C17); an
        # EMPTY range therefore still purges.  The reference side performs that one purge explicitly, then the singles
        # (each of which purges again at the same instant: idempotent).
        L.append('    %s__clean_expired_values(&s2); /* the purge that opens every ut_map/ut_set operation */' % cn)
    if rng:
        L.append('    %s r1; r1.len = n; r1.data = d1;' % rng)
    if kind == 'count':
        L.append('    uint64_t c1 = %s;' % call1)
        L.append('    uint64_t c2 = 0;')
        L.append('    for (uint64_t i = 0; i < RLEN; i++) if (i < n) { if (%s) c2++; }' % call2)
        L.append('    __CPROVER_assert(c1 == c2, "C18 %s::%s: returned count equals the number of single-operation successes [C09 C18]");' % (cn, name))
    elif kind in ('outvec', 'outvec_kb'):
        ot = 'cstl_outvec' if kind == 'outvec' else 'cstl_outvec_kb'
        L.append('    %s o1 = %s;' % (ot, call1))
        if kind == 'outvec':
            L.append('    cstl_opt last; last.has = 0; last.v = 0; uint64_t lastk = 0;')
        else:
            L.append('    bool last = 0; uint64_t lastk = 0;')
        L.append('    for (uint64_t i = 0; i < RLEN; i++) if (i < n) { last = %s; lastk = d2[i]; }' % call2)
        L.append('    __CPROVER_assert(o1.size == n, "C18 %s::%s: one result per input key [C18]");' % (cn, name))
        if kind == 'outvec':
            L.append('    __CPROVER_assert(n == 0 || (o1.last.first == lastk && o1.last.second.has == last.has && (!last.has || o1.last.second.v == last.v)), "C18 %s::%s: last result equals the single lookup at that position [C01 C18]");' % (cn, name))
        else:
            L.append('    __CPROVER_assert(n == 0 || (o1.last.first == lastk && o1.last.second == last), "C18 %s::%s: last result equals the single lookup at that position [C01 C18]");' % (cn, name))
    elif kind in ('fill', 'fill_kb'):
        L.append('    %s;' % call1)
        if kind == 'fill':
            L.append('    for (uint64_t i = 0; i < RLEN; i++) if (i < n) { cstl_opt r = %s; __CPROVER_assert(d1[i].first == d2[i].first && d1[i].second.has == r.has && (!r.has || d1[i].second.v == r.v), "C18 %s::%s: element filled with the result of the single lookup [C01 C18]"); }' % (call2, cn, name))
        else:
            L.append('    for (uint64_t i = 0; i < RLEN; i++) if (i < n) { bool r = %s; __CPROVER_assert(d1[i].first == d2[i].first && d1[i].second == r, "C18 %s::%s: element filled with the result of the single lookup [C01 C18]"); }' % (call2, cn, name))
    L.append('    __CPROVER_assert(%s_view_eq(&s1, &s2, G_g) && %s_size(&s1) == %s_size(&s2), "C18 %s::%s: same effect on every key as the single operations in order [C18]");' % (pfx, pfx, pfx, cn, name))
    L.append('    __CPROVER_assert(%s_wf(&s1), "C18 %s::%s: representation invariant preserved [C18]");' % (pfx, cn, name))
    if purge:
        L.append('    __CPROVER_assert(!s1.m_lock.m_lock.held && s1.m_lock.m_lock.acq + n == s2.m_lock.m_lock.acq, "C18 %s::%s: the whole range runs in ONE critical section [C06 C18]");' % (cn, name))
    else:
        L.append('    __CPROVER_assert(!s1.m_lock.m_lock.held && s1.m_lock.m_lock.acq == s2.m_lock.m_lock.acq - (n == 0 ? 0 : n - 1) + (n == 0 ? 1 : 0), "C18 %s::%s: the whole range runs in ONE critical section [C06 C18]");' % (cn, name))
    L.append('    __CPROVER_assert(0, "vacuity sentinel: must be reachable (fails iff the preconditions are satisfiable)");')
    L.append('}')
    return '\n'.join(L)


class RelUnit:
    def __init__(self, container, op, maxcap, spec, info, gen, timeout=3600, case=None, rlen=RLEN, extra_assume=None):
        self.container, self.op, self.maxcap, self.spec, self.info, self.gen = container, op, maxcap, spec, info, gen
        self.timeout = timeout
        self.case = case
        self.fn = '%s__%s' % (container, op[0])
        self.rlen = rlen
        self.extra_assume = extra_assume
        self.id = '%s/REL/B%d/len%d%s%s' % (self.fn, maxcap, rlen, '/case%d' % case[0] if case else '', '/restricted' if extra_assume else '')
        self.lockcov = False

    def source(self):
        csrc = open(os.path.join(self.gen, self.info['cname'] + '.c')).read()
        csrc = csrc.replace('#include "%s.h"\n' % self.info['cname'], '#include "%s.h"\n#include "%s"\n' % (self.info['cname'], self.spec.header), 1)
        h = harness(self.container, self.op)
        if self.case:
            h = h.replace('    s2 = s1;', '    __CPROVER_assume(%s);\n    s2 = s1;' % self.case[1].replace('self->', 's1.').replace('(self)', '(&s1)'))
        if self.extra_assume:
            h = h.replace('    s2 = s1;', '    __CPROVER_assume(%s);\n    s2 = s1;' % self.extra_assume, 1)
        return csrc + '\n#define RLEN %d\n' % self.rlen + engine.PREAMBLE + '\n' + h + '\n'

    def key(self):
        cst = engine.models_hash(engine.file_bytes(os.path.join(self.gen, self.info['cname'] + '.h')))
        return engine.sha(self.id, self.source(), cst, engine.file_bytes(os.path.join(self.gen, 'gen_common.h')), engine.file_bytes(os.path.join(self.gen, self.info['cname'] + '.h')), 'rel-v4')


def run_rel(unit, want_trace=False):
    import re
    key = unit.key()
    udir = os.path.join(engine.BUILD, 'units', key)
    resf = os.path.join(udir, 'result.json')
    if os.path.exists(resf) and not want_trace:
        try:
            r = json.load(open(resf))
            os.utime(udir)
            r['cached'] = True
            return r
        except Exception:
            pass
    os.makedirs(udir, exist_ok=True)
    open(os.path.join(udir, 'h.c'), 'w').write(unit.source())
    inc = ['-I' + os.path.join(engine.VERIF, 'cstl'), '-I' + os.path.join(engine.VERIF, 'contracts'), '-I' + unit.gen]
    res = dict(unit=unit.id, container=unit.container, function=unit.fn, maxcap=unit.maxcap, key=key, cached=False, replaced=[])
    t0 = time.time()
    cmd1 = ['goto-cc', '-DCSTL_CBMC', '-DCSTL_DETERMINISTIC', '-DMAXCAP=%d' % unit.maxcap] + inc + ['--function', 'h_rel', os.path.join(udir, 'h.c'), '-o', os.path.join(udir, 'a.%d.gb' % os.getpid())]
    rc, out, err, _ = engine.run(cmd1, timeout=120)
    if rc != 0:
        res.update(status='error', error='goto-cc: ' + (out + err)[-1500:])
        return res
    unwind = 2 * (unit.maxcap + 1) + 2
    cmd3 = ['cbmc', os.path.join(udir, 'a.%d.gb' % os.getpid()), '--unwind', str(unwind), '--unwinding-assertions'] + engine.CBMC_CHECKS + ['--json-ui'] + (['--trace'] if want_trace else [])
    rc, out, err, secs = engine.run(cmd3, timeout=unit.timeout, mem_kb=24000000)
    res['checker_cmd'] = ' '.join(cmd1[:3] + ['...', '--function', 'h_rel', 'h.c']) + ' && ' + ' '.join(['cbmc', 'a.gb'] + cmd3[2:])
    res['solver_s'] = round(secs, 2)
    if rc == -9:
        res.update(status='timeout', error='cbmc timeout after %ds' % unit.timeout)
        json.dump(res, open(resf, 'w'))
        return res
    try:
        msgs = json.loads(out)
    except Exception:
        res.update(status='error', error='cbmc output not JSON: ' + (out[-800:] + err[-800:]))
        return res
    results = None
    for m in msgs:
        if isinstance(m, dict) and 'result' in m:
            results = m['result']
    if results is None:
        res.update(status='error', error='cbmc produced no result: ' + out[-1500:])
        return res
    obl, traces = [], {}
    for r in results:
        desc = r.get('description', '')
        prop = r.get('property', '')
        loc = r.get('sourceLocation', {})
        base = dict(prop=prop, desc=desc, status=r.get('status'), file=os.path.basename(loc.get('file', '')), line=int(loc.get('line', 0) or 0), function=loc.get('function', ''))
        if 'vacuity sentinel' in desc:
            o = dict(base, id=unit.id + '/vacuity', kind='vacuity', tags=[])
        elif desc.startswith('model bound') or 'unwinding assertion' in desc:
            o = dict(base, id=unit.id + '/bound:' + prop, kind='spec-sanity' if desc.startswith('model bound') else 'unwind', tags=[])
        else:
            m = re.search(r'\[((?:C\d+\s*)+)\]', desc)
            if desc.startswith('C18 '):
                o = dict(base, id='%s/%s' % (unit.id, desc.split(' [')[0].split(': ', 1)[1][:60]), kind='relational', tags=m.group(1).split(), expr=desc)
            elif m and desc.startswith('std.'):
                o = dict(base, id='%s/%s@%s:%d' % (unit.id, desc.split(' [')[0], base['function'], base['line']), kind='std-precondition', tags=['C08'])
            elif base['file'] in engine.SPEC_HEADERS():
                o = dict(base, id='%s/spec-sanity:%s' % (unit.id, prop), kind='spec-sanity', tags=[])
            else:
                o = dict(base, id='%s/safety:%s' % (unit.id, prop), kind='safety', tags=['C08'])
        if want_trace and r.get('status') == 'FAILURE' and 'trace' in r:
            traces[o['id']] = r['trace']
        obl.append(o)
    res['obligations'] = obl
    res['status'] = 'done'
    res['wall_s'] = round(time.time() - t0, 2)
    if want_trace:
        res['traces'] = traces
        return res
    if all(o['status'] in ('SUCCESS', 'FAILURE') for o in obl):
        json.dump(res, open(resf, 'w'))
    try:
        os.remove(os.path.join(udir, 'a.%d.gb' % os.getpid()))
    except OSError:
        pass
    return res
