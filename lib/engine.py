"""engine.py -- extraction, proof units (goto-cc -> goto-instrument --dfcc -> cbmc), result cache."""
import hashlib, json, os, threading, signal, re, subprocess, sys, time, glob, fcntl, shutil, concurrent.futures

VERIF = os.path.dirname(os.path.dirname(os.path.abspath(__file__)))
REPO = os.environ.get('VERIF_REPO', '/repo')
BUILD = os.path.join(VERIF, 'build')
NPROC = int(os.environ.get('VERIF_JOBS', str(os.cpu_count() or 4)))
sys.path.insert(0, os.path.join(VERIF, 'lib'))
import specparse

CBMC_CHECKS = ['--bounds-check', '--pointer-check', '--signed-overflow-check', '--unsigned-overflow-check',
               '--conversion-check', '--div-by-zero-check']


class Undecided(Exception):
    """extraction break, tool failure, timeout, vacuity failure: exit 2, never a violation"""


def sha(*parts):
    h = hashlib.sha256()
    for p in parts:
        h.update(p if isinstance(p, bytes) else p.encode())
        h.update(b'\0')
    return h.hexdigest()[:20]


def file_bytes(path):
    with open(path, 'rb') as f:
        return f.read()


def models_hash(container_header):
    """hash of the std:: models and specification headers a unit depends on.  A container whose generated header does
    not include cstl_mmap.h cannot depend on it: for those the multimap model enters the hash with the bytes it had when
    their results were computed (lib/frozen), so that refining the multimap model re-runs only the containers that use it."""
    h = hashlib.sha256()
    mm = os.path.join(VERIF, 'cstl', 'cstl_mmap.h')
    uses_mm = b'"cstl_mmap.h"' in container_header
    # likewise contracts/lfu_base.h is included by the specifications of lfu_cache and lfuda_cache only (the two containers
    # with a use-count multimap m_lfu_list): the other containers keep the bytes their results were computed with
    lb = os.path.join(VERIF, 'contracts', 'lfu_base.h')
    uses_lb = b'm_lfu_list' in container_header
    for p in sorted(files_under(os.path.join(VERIF, 'cstl')) + files_under(os.path.join(VERIF, 'contracts'), {'.h'})):
        h.update(p.encode())
        h.update(b'\0')
        h.update(file_bytes(os.path.join(VERIF, 'lib', 'frozen', 'cstl_mmap.h.v1')) if (p == mm and not uses_mm) else
                 file_bytes(os.path.join(VERIF, 'lib', 'frozen', 'lfu_base.h.v1')) if (p == lb and not uses_lb) else file_bytes(p))
        h.update(b'\0')
    return h.hexdigest()[:20]


def hash_files(paths):
    h = hashlib.sha256()
    for p in sorted(paths):
        h.update(p.encode())
        h.update(b'\0')
        h.update(file_bytes(p))
        h.update(b'\0')
    return h.hexdigest()[:20]


def files_under(d, exts=None):
    out = []
    for root, dirs, fs in os.walk(d):
        dirs[:] = [x for x in dirs if x not in ('__pycache__', '.git')]
        for f in fs:
            if exts is None or os.path.splitext(f)[1] in exts:
                out.append(os.path.join(root, f))
    return out


STOP = threading.Event()   # set once the verdict of the running check is known: nothing new is started
_PROCS = set()
_PLOCK = threading.Lock()


def _killpg(p):
    try:
        os.killpg(p.pid, signal.SIGKILL)
    except (ProcessLookupError, PermissionError):
        pass


def stop_all():
    """stop every solver this process started (process groups: cbmc and the z3 it spawned)"""
    STOP.set()
    with _PLOCK:
        for p in list(_PROCS):
            _killpg(p)


def run(cmd, timeout=600, mem_kb=12000000, cwd=None, env=None):
    """run under timeout and an address-space limit, in its own process group (a timeout kills cbmc AND the solver it
    spawned); returns (rc, stdout, stderr, seconds); rc=-9 on timeout, -15 when the check was stopped"""
    t0 = time.time()
    if STOP.is_set():
        return -15, '', 'CANCELLED', 0.0
    pre = 'ulimit -v %d; ' % mem_kb if mem_kb else ''
    p = subprocess.Popen(['bash', '-c', pre + 'exec "$@"', 'x'] + cmd, stdout=subprocess.PIPE, stderr=subprocess.PIPE, cwd=cwd, env=env, start_new_session=True)
    with _PLOCK:
        _PROCS.add(p)
    try:
        out, err = p.communicate(timeout=timeout)
        if STOP.is_set() and p.returncode < 0:
            return -15, out.decode(errors='replace'), 'CANCELLED', time.time() - t0
        return p.returncode, out.decode(errors='replace'), err.decode(errors='replace'), time.time() - t0
    except subprocess.TimeoutExpired:
        _killpg(p)
        out, err = p.communicate()
        return -9, (out or b'').decode(errors='replace'), 'TIMEOUT after %ss' % timeout, time.time() - t0
    finally:
        with _PLOCK:
            _PROCS.discard(p)


class Lock:
    def __init__(self, path):
        self.path = path

    def __enter__(self):
        os.makedirs(os.path.dirname(self.path), exist_ok=True)
        self.f = open(self.path, 'w')
        fcntl.flock(self.f, fcntl.LOCK_EX)
        return self

    def __exit__(self, *a):
        fcntl.flock(self.f, fcntl.LOCK_UN)
        self.f.close()


# ------------------------------------------------------------------------------------------------
# generation: clang AST -> C, contracts inserted, native co-simulation


def repo_hash():
    return hash_files(files_under(os.path.join(REPO, 'inc')) + files_under(os.path.join(REPO, 'src')))


def framework_hash():
    fs = []
    for d in ('extract', 'cstl', 'replay'):
        fs += files_under(os.path.join(VERIF, d), {'.py', '.h', '.c', '.cpp'})
    return hash_files(fs)


def ensure_gen(log=None):
    """extract the current working tree of /repo; returns the gen directory (cached by content)"""
    key = sha(repo_hash(), framework_hash())
    gdir = os.path.join(BUILD, 'gen-' + key)
    with Lock(os.path.join(BUILD, 'gen.lock')):
        if os.path.exists(os.path.join(gdir, 'OK')):
            os.utime(gdir)
            return gdir
        if os.path.exists(gdir):
            shutil.rmtree(gdir)
        os.makedirs(gdir)
        t0 = time.time()
        ast = os.path.join(gdir, 'ast.json')
        rc, out, err, _ = run(['clang++', '-std=c++17', '-DEXTRACT_NOTS', '-I' + os.path.join(REPO, 'inc'), '-fsyntax-only', '-Xclang', '-ast-dump=json',
                               '-Xclang', '-ast-dump-filter=cappuccino::', os.path.join(VERIF, 'extract', 'inst.cpp')], timeout=300, mem_kb=0)
        if rc != 0:
            raise Undecided('clang rejects the tree (build broken):\n' + err[-2000:])
        open(ast, 'w').write(out)
        for flag, sub in (([], 'gen'), (['--lockcov'], 'gen_lockcov')):
            rc, out, err, _ = run([sys.executable, os.path.join(VERIF, 'extract', 'ast2c.py'), ast, os.path.join(gdir, sub)] + flag, timeout=300, mem_kb=0)
            if rc != 0:
                raise Undecided('extraction break: ' + err[-2000:])
        os.remove(ast)
        # thread_safe::no instantiation must be textually identical up to the mutex type
        check_nots_identical(os.path.join(gdir, 'gen'))
        cos = cosim(gdir)
        json.dump(dict(cosim=cos, seconds=time.time() - t0), open(os.path.join(gdir, 'OK'), 'w'))
        gc_gen(gdir)
        return gdir


def gc_gen(keep):
    """drop an extraction only when it is both beyond the twelve newest and unused for three hours (a running check
    touches its extraction whenever a unit finishes), or unused for a day"""
    gens = sorted(glob.glob(os.path.join(BUILD, 'gen-*')), key=os.path.getmtime, reverse=True)
    now = time.time()
    for i, g in enumerate(gens):
        age = now - os.path.getmtime(g)
        if g != keep and ((i >= 12 and age > 3 * 3600) or age > 24 * 3600):
            shutil.rmtree(g, ignore_errors=True)


def check_nots_identical(gen):
    info = json.load(open(os.path.join(gen, 'info.json')))
    for i in info:
        if i['ts'] != 'no':
            continue
        a = open(os.path.join(gen, i['cls'] + '.c')).read()
        b = open(os.path.join(gen, i['cname'] + '.c')).read()
        b2 = b.replace(i['cname'], i['cls']).replace('cappuccino_mutex_no', 'cappuccino_mutex_yes')
        if a != b2:
            raise Undecided('thread_safe::no instantiation of %s differs from thread_safe::yes beyond the mutex type' % i['cls'])


def cosim(gdir, seed=None, histories=300, length=80):
    """native co-simulation of the extracted C against the real library"""
    gen = os.path.join(gdir, 'gen')
    nat = os.path.join(gdir, 'native')
    os.makedirs(nat, exist_ok=True)
    info = [i for i in json.load(open(os.path.join(gen, 'info.json'))) if i['ts'] == 'yes']
    objs = []
    procs = []
    for i in info:
        o = os.path.join(nat, i['cname'] + '.o')
        objs.append(o)
        procs.append(subprocess.Popen(['gcc', '-std=c11', '-O1', '-w', '-DMAXCAP=4', '-I' + os.path.join(VERIF, 'cstl'), '-I' + gen, '-c', os.path.join(gen, i['cname'] + '.c'), '-o', o],
                                      stderr=subprocess.PIPE))
    for p in procs:
        _, err = p.communicate()
        if p.returncode != 0:
            raise Undecided('extracted C does not compile natively:\n' + err.decode()[-2000:])
    drv = os.path.join(nat, 'driver')
    rc, out, err, _ = run(['g++', '-std=c++17', '-O1', '-fpermissive', '-w', '-DMAXCAP=4', '-I' + os.path.join(REPO, 'inc'), '-I' + os.path.join(VERIF, 'cstl'), '-I' + gen,
                           os.path.join(VERIF, 'replay', 'driver.cpp'), os.path.join(VERIF, 'replay', 'replay.cpp')] + objs + ['-o', drv, '-lpthread'], timeout=600, mem_kb=0)
    if rc != 0:
        raise Undecided('native driver does not build:\n' + err[-3000:])
    seed = seed if seed is not None else int(os.environ.get('VERIF_SEED', '1') or 1)
    total = 0
    ub = []
    names = [i['cname'] for i in info]
    with concurrent.futures.ThreadPoolExecutor(max_workers=len(names)) as ex:
        futs = {n: ex.submit(run, [drv, 'cosim', str(seed), str(histories), str(length), n], 600, 0) for n in names}
    for n in names:
        rc, out, err, _ = futs[n].result()
        m = re.search(r'(\d+) calls compared', out)
        if m:
            total += int(m.group(1))
        if rc == 0:
            continue
        if rc == 3 or rc < 0 or rc > 128:
            # undefined behaviour on a concrete history (model precondition failed, or the real library crashed):
            # the extraction is not at fault; the deductive check decides, and the history is kept as a lead
            ub.append(dict(container=n, how='model-precondition' if rc == 3 else 'real library crashed (rc %d)' % rc, detail=err[-1500:]))
            continue
        raise Undecided('co-simulation: extracted C disagrees with the real library on %s (extractor/model defect)\n' % n + (out + err)[-3000:])
    return dict(calls=total, ub=ub)


# ------------------------------------------------------------------------------------------------
# proof units


class Unit:
    """one contract enforcement: goto-cc -> goto-instrument --dfcc -> cbmc"""

    def __init__(self, container, fn, maxcap, spec, info, gen, lockcov=False, timeout=900, modular=False, sym=False, case=None, rangelen=2):
        self.container, self.fn, self.maxcap, self.spec, self.info, self.gen = container, fn, maxcap, spec, info, gen
        self.lockcov = lockcov
        self.timeout = timeout
        self.modular = modular  # True: callees that have a contract are replaced by it (DFCC); False: inlined
        self.sym = sym and bool(spec.canon) and not fn.endswith('__ctor')  # symmetry-reduced pre-state (canonical node numbering)
        self.case = case  # (index, expr): one case of a case split of the precondition
        self.rangelen = rangelen  # bound on the length of caller ranges (range methods only)
        self.id = '%s/B%d%s%s%s%s' % (fn, maxcap, '/lockcov' if lockcov else '', '/modular' if modular else '', '/sym' if self.sym else '', '/case%d' % case[0] if case else '')
        if 'SPEC_RANGE_LEN' in ' '.join(c.expr for c in spec.funcs[fn].clauses):
            self.id += '/len%d' % rangelen

    def extra_requires(self):
        x = []
        if self.sym:
            x.append(self.spec.canon)
        if self.case:
            x.append(self.case[1])
        return {self.fn: x}

    def finfo(self):
        return [f for f in self.info['functions'] if f['cname'] == self.fn][0]

    def replaced(self):
        """callees (transitively reachable through contract-less helpers) that have a contract"""
        if not self.modular:
            return []
        fmap = {f['cname']: f for f in self.info['functions']}
        seen, out, todo = set(), [], list(self.finfo()['calls'])
        while todo:
            c = todo.pop()
            if c in seen or c not in fmap:
                continue
            seen.add(c)
            if c in self.spec.funcs:
                out.append(c)
            else:
                todo.extend(fmap[c]['calls'])
        return sorted(out)

    def harness(self):
        f = self.finfo()
        L = []
        decl = []
        args = []
        for t, n in f['params']:
            if n == 'self':
                decl.append('%s *self;' % self.info['cname'])
                args.append('self')
            else:
                decl.append('%s%s%s;' % (t, '' if t.endswith('*') else ' ', n))
                args.append(n)
        L.append('void h_%s(void)' % self.fn)
        L.append('{')
        L += ['    ' + d for d in decl]
        call = '%s(%s);' % (self.fn, ', '.join(args))
        if f['ret'] != 'void':
            call = '%s __r = %s' % (f['ret'], call)
        L.append('    ' + call)
        L.append('    __CPROVER_assert(0, "vacuity sentinel: must be reachable (fails iff the preconditions are satisfiable)");')
        L.append('}')
        return '\n'.join(L)

    def key(self, contracts_text):
        common = file_bytes(os.path.join(self.gen, 'gen_common.h'))
        hdr = file_bytes(os.path.join(self.gen, self.info['cname'] + '.h'))
        cst = models_hash(hdr)
        return sha(self.id, contracts_text, cst, common, hdr, self.harness(), ' '.join(CBMC_CHECKS), 'v4' + ('cov2' if self.lockcov else ''))


PREAMBLE = '''
uint64_t G_g, G_h;          /* ghost index parameters (left nondeterministic by the harness) */
int64_t  G_NOW;             /* the clock reading of this call */
uint64_t G_RAND;            /* the outcome of the random source in this call */
cstl_ms  G_MS;              /* the one duration value converted to ns in this call, and its image */
int64_t  G_NS;
int64_t cstl_now(void) { return G_NOW; }
uint64_t cstl_rand_range(uint64_t a, uint64_t b)
{
    __CPROVER_assert(a <= b, "std.uniform_int_distribution: a <= b [C08 C15]");
    __CPROVER_assume(a <= G_RAND && G_RAND <= b);
    return G_RAND;
}
'''

COV_DEF = '''
#define CSTL_COV(s, id) __CPROVER_assert((s)->m_lock.m_lock.held, "lock coverage: member accessed while the lock is held: " id " [C06 C07]")
'''


def contracts_source(gen, info, spec, lockcov=False, extra_requires=None, only=None):
    sub = gen if not lockcov else gen + '_lockcov'
    csrc = open(os.path.join(sub, info['cname'] + '.c')).read()
    text, linemap, missing = specparse.insert_contracts(csrc, spec, [spec.header], extra_requires, only)
    if missing:
        raise Undecided('contract anchor missing: %s has contracts for functions that no longer exist: %s' % (spec.container, ', '.join(missing)))
    return text, linemap


RACE_FREE_CONTAINER_OPS = {'operator[]', 'size', 'capacity', 'begin', 'end', 'find', 'back', 'front', 'at', 'empty'}


def lock_exempt(info, method, member):
    """[container.requirements.dataraces]: size()/capacity() of a standard container that is never
    structurally modified after construction may be called concurrently with element accesses.  A member is
    exempt from lock coverage in the observers size/empty/capacity iff, outside constructors, only
    non-modifying container operations are ever applied to it (computed from the AST on every run)."""
    if method not in ('size', 'empty', 'capacity'):
        return False
    ops = info.get('member_ops', {}).get(member)
    return bool(ops) and set(ops) <= RACE_FREE_CONTAINER_OPS


_spec_headers = None


def SPEC_HEADERS():
    global _spec_headers
    if _spec_headers is None:
        _spec_headers = set(os.path.basename(x) for x in files_under(os.path.join(VERIF, 'contracts'), {'.h'}))
    return _spec_headers


def classify(res, unit, linemap, srcname):
    """one CBMC property result -> dict(id, kind, tags)"""
    desc = res.get('description', '')
    prop = res.get('property', '')
    loc = res.get('sourceLocation', {})
    f = loc.get('file', '')
    fn = loc.get('function', '')
    line = int(loc.get('line', 0) or 0)
    container_props = unit.spec.props
    base = dict(prop=prop, desc=desc, status=res.get('status'), file=os.path.basename(f), line=line, function=fn)
    if 'vacuity sentinel' in desc:
        return dict(base, id=unit.id + '/vacuity', kind='vacuity', tags=[])
    if desc.startswith('model bound') or 'native: ' in desc:
        return dict(base, id=unit.id + '/model-bound:' + prop, kind='spec-sanity', tags=[])
    if 'unwinding assertion' in desc or prop.endswith('.unwind') or '.unwind.' in prop:
        return dict(base, id=unit.id + '/unwind:' + prop, kind='unwind', tags=[])
    m = re.search(r'\[((?:C\d+\s*)+)\]', desc)
    if m and (desc.startswith('std.') or desc.startswith('lock coverage')):
        kind = 'lockcov' if desc.startswith('lock coverage') else 'std-precondition'
        short = desc.split(' [')[0]
        if kind == 'lockcov':
            mm = re.search(r'(\w+)::(\w+):(\w+)$', short)
            short = 'lockcov:%s' % (mm.group(0) if mm else short)
            if mm and lock_exempt(unit.info, mm.group(2), mm.group(3)):
                return dict(base, id='%s/%s@%s:%d' % (unit.id, short, fn, line), kind='lockcov-exempt', tags=[])
        return dict(base, id='%s/%s@%s:%d' % (unit.id, short, fn, line), kind=kind, tags=m.group(1).split())
    if os.path.basename(f) == srcname and line in linemap:
        cfn, cl = linemap[line]
        if cl.kind == 'ensures':
            return dict(base, id='%s/ensures.%s' % (unit.id, cl.id), kind='postcondition', tags=cl.tags, expr=cl.expr)
        # requires clause of a replaced callee, checked at the call site
        return dict(base, id='%s/call:%s.requires.%s' % (unit.id, cfn, cl.id), kind='callee-precondition', tags=list(container_props), expr=cl.expr)
    if 'is_fresh' in desc or 'assigns' in desc.lower() or 'assignable' in desc.lower() or prop.startswith('__CPROVER_contracts') or '__CPROVER_contracts' in fn:
        return dict(base, id='%s/frame:%s' % (unit.id, prop), kind='frame', tags=['C08'])
    if os.path.basename(f) in SPEC_HEADERS():
        return dict(base, id='%s/spec-sanity:%s' % (unit.id, prop), kind='spec-sanity', tags=[])
    if 'Check requires clause' in desc or 'Check ensures clause' in desc:
        return dict(base, id='%s/contract:%s' % (unit.id, prop), kind='contract-other', tags=list(container_props))
    # built-in checks in extracted code or the std models: memory safety / arithmetic
    return dict(base, id='%s/safety:%s' % (unit.id, prop), kind='safety', tags=['C08'])


def run_unit(unit, want_trace=False):
    """returns result dict (cached)"""
    text, linemap = contracts_source(unit.gen, unit.info, unit.spec, unit.lockcov, unit.extra_requires(), set([unit.fn] + unit.replaced()))
    key = unit.key(text)
    udir = os.path.join(BUILD, 'units', key)
    resf = os.path.join(udir, 'result.json')
    if os.path.exists(resf) and not want_trace:
        try:
            r = json.load(open(resf))
            os.utime(udir)
            r['cached'] = True
            return r
        except Exception:
            pass
    os.makedirs(udir, exist_ok=True)
    srcname = unit.info['cname'] + '.contracts.c'
    open(os.path.join(udir, srcname), 'w').write(text)
    hsrc = '%s#include "%s"\n%s\n%s\n' % (COV_DEF if unit.lockcov else '', srcname, PREAMBLE, unit.harness())
    open(os.path.join(udir, 'h.c'), 'w').write(hsrc)
    gen = unit.gen if not unit.lockcov else unit.gen + '_lockcov'
    inc = ['-I' + os.path.join(VERIF, 'cstl'), '-I' + os.path.join(VERIF, 'contracts'), '-I' + gen, '-I' + udir]
    t0 = time.time()
    res = dict(unit=unit.id, container=unit.container, function=unit.fn, maxcap=unit.maxcap, key=key, cached=False, replaced=unit.replaced())
    cmd1 = ['goto-cc', '-DCSTL_CBMC', '-DMAXCAP=%d' % unit.maxcap, '-DSPEC_RANGE_LEN=%d' % unit.rangelen] + inc + ['--function', 'h_' + unit.fn, os.path.join(udir, 'h.c'), '-o', os.path.join(udir, 'a.%d.gb' % os.getpid())]
    rc, out, err, _ = run(cmd1, timeout=120)
    if rc != 0:
        res.update(status='error', error='goto-cc: ' + (out + err)[-1500:])
        return res
    cmd2 = ['goto-instrument', '--dfcc', 'h_' + unit.fn, '--enforce-contract', unit.fn]
    for c in unit.replaced():
        cmd2 += ['--replace-call-with-contract', c]
    cmd2 += [os.path.join(udir, 'a.%d.gb' % os.getpid()), os.path.join(udir, 'b.%d.gb' % os.getpid())]
    rc, out, err, _ = run(cmd2, timeout=300)
    if rc != 0:
        res.update(status='error', error='goto-instrument: ' + (out + err)[-1500:])
        return res
    unwind = 2 * (unit.maxcap + 1) + 2
    cmd3 = ['cbmc', os.path.join(udir, 'b.%d.gb' % os.getpid()), '--unwind', str(unwind), '--unwinding-assertions'] + CBMC_CHECKS + ['--json-ui']
    if want_trace:
        cmd3.append('--trace')
    rc, out, err, secs = run(cmd3, timeout=unit.timeout)
    res['checker_cmd'] = ' '.join(cmd1[:3] + ['...'] + cmd1[-4:]) + ' && ' + ' '.join(cmd2[:-2]) + ' && ' + ' '.join(['cbmc', 'b.gb'] + cmd3[2:])
    res['solver_s'] = round(secs, 2)
    if rc == -9:
        res.update(status='timeout', error='cbmc timeout after %ds' % unit.timeout)
        json.dump(res, open(resf, 'w'))
        return res
    try:
        msgs = json.loads(out)
    except Exception:
        res.update(status='error', error='cbmc output not JSON: ' + (out[-800:] + err[-800:]))
        return res
    results = None
    for m in msgs:
        if isinstance(m, dict) and 'result' in m:
            results = m['result']
        if isinstance(m, dict) and m.get('messageType') == 'ERROR':
            res.setdefault('cbmc_errors', []).append(m.get('messageText', '')[:500])
    if results is None:
        res.update(status='error', error='cbmc produced no result: ' + json.dumps(res.get('cbmc_errors', ''))[:1500] + err[-500:])
        return res
    if 'ignoring' in out and 'quantifier' in out:
        res.update(status='error', error='cbmc ignored a quantifier')
        return res
    obl = []
    traces = {}
    for r in results:
        o = classify(r, unit, linemap, srcname)
        if want_trace and r.get('status') == 'FAILURE' and 'trace' in r:
            traces[o['id']] = r['trace']
        obl.append(o)
    res['obligations'] = obl
    res['status'] = 'done'
    res['wall_s'] = round(time.time() - t0, 2)
    if want_trace:
        res['traces'] = traces
        return res
    if all(o['status'] in ('SUCCESS', 'FAILURE') for o in obl):
        json.dump(res, open(resf, 'w'))
    for f in ('a.%d.gb' % os.getpid(), 'b.%d.gb' % os.getpid()):
        try:
            os.remove(os.path.join(udir, f))
        except OSError:
            pass
    return res


def run_units(units, progress=None, stop_when=None):
    """run the units on NPROC workers; stop_when(result) -> True ends the run early: nothing new is started, running
    solvers are killed, and the units without a result are reported with status 'cancelled'"""
    out = []
    with concurrent.futures.ThreadPoolExecutor(max_workers=NPROC) as ex:
        import rel, uroute
        futs = {ex.submit(rel.run_rel if isinstance(u, rel.RelUnit) else uroute.run_u if isinstance(u, uroute.UUnit) else run_unit, u): u for u in units}
        for f in concurrent.futures.as_completed(futs):
            u = futs[f]
            try:
                r = f.result()
            except concurrent.futures.CancelledError:
                r = dict(unit=u.id, container=u.container, function=u.fn, maxcap=getattr(u, 'maxcap', 0), status='cancelled', obligations=[])
            if STOP.is_set() and r.get('status') != 'done':
                r = dict(r, status='cancelled', obligations=[])
            out.append(r)
            try:
                os.utime(os.path.dirname(u.gen))  # this extraction is in use (see gc_gen)
            except OSError:
                pass
            if progress:
                progress(r)
            if stop_when and not STOP.is_set() and stop_when(u, r):
                for g in futs:
                    g.cancel()
                stop_all()
    return out


def gc_units(maxn=3000):
    ud = os.path.join(BUILD, 'units')
    if not os.path.isdir(ud):
        return
    ds = sorted(glob.glob(os.path.join(ud, '*')), key=os.path.getmtime, reverse=True)
    for d in ds[maxn:]:
        shutil.rmtree(d, ignore_errors=True)
