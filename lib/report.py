"""report.py -- from unit results to verdict, evidence file, VIOLATION / KNOWN-FINDING lines"""
import os, json, re, time, glob, subprocess, sys
import engine

TRUSTED = [
    'libstdc++ satisfies the std:: contracts modelled in /verif/cstl (iterator stability of list/map/multimap; unordered_map does not rehash while size() <= reserve(n); multimap::begin() is a minimum; std::mutex gives mutual exclusion and happens-before; steady_clock is monotone)',
    'node allocation never fails; no exceptions from user types (key_type = value_type = uint64_t instantiation; parametricity in key/value type is an argument, not a proof)',
    'the extraction (extract/ast2c.py) preserves the semantics of the instantiated clang AST; supported on every run by native co-simulation of the extracted C against the real library',
    'CBMC 6.11 / goto-instrument DFCC / MiniSat are sound',
    'forward-simulation argument: constructor establishes wf, every public operation preserves wf from ANY wf state and meets its view-level postcondition, hence by induction on the history every reachable state is wf and every result equals the specification (DESIGN.md section 5; not machine-checked)',
]


def load_known():
    p = os.path.join(engine.VERIF, 'known_findings.json')
    if not os.path.exists(p):
        return []
    return json.load(open(p)).get('findings', [])


def u_assumptions(results):
    """assumptions of the route U units that took part in this verdict"""
    us = [r for r in results if r.get('route') == 'U']
    if not us:
        return []
    out = ['route U: the representation invariant (a conjunction of universally quantified clauses) is ASSUMED at an explicit, hand-written instance list per harness and ASSERTED at arbitrary ghost instances; assuming fewer instances than "for all" is sound',
           'route U: use counts and ut_map/ut_set sizes stay below 2^64-1 (no wrap-around of size()+1 / count+1)',
           'route U: z3 4.8.12 (cbmc --z3) and CBMC\'s array-theory encoding of __CPROVER_constant_infinity_uint arrays are sound']
    if any(r['container'] == 'rr_cache' for r in us):
        out.append('route U rr_cache do_prune/insert: "every slot of a full cache is in use" (pigeonhole on the injective open list) is assumed at the drawn slot; discharged by route B at bounded capacity')
    if any('U-expired-le-2' in r.get('unit', '') for r in us):
        out.append('bounded stand-in (route U): ut_map/ut_set do_prune is decided for every number of stored entries but for at most 2 entries expired at the call (loop and erase(range) unwound); not counted as an every-capacity result')
    rep = sorted(set(x for r in us for x in r.get('replaced', [])))
    for x in rep:
        out.append('route U assumed contract of a repository function: calls %s (goto-instrument --replace-calls); the contract (contracts/<container>.spec: wf, frame, all and only the entries with deadline <= now leave, count) is enforced on the function itself only in route B, at bounded sizes' % x.replace(':', ' -> '))
    for f in sorted(glob.glob(os.path.join(engine.VERIF, 'cstl_u', '*.h')) + glob.glob(os.path.join(engine.VERIF, 'cstl_ud', '*.h'))):
        for i, line in enumerate(open(f), 1):
            if 'CSTL_ASSUME(' in line and '#define' not in line:
                out.append('%s:%d: %s' % (os.path.relpath(f, engine.VERIF), i, line.strip()[:160]))
    return out


def scan_assumptions():
    out = []
    for f in sorted(glob.glob(os.path.join(engine.VERIF, 'cstl', '*.h')) + [os.path.join(engine.VERIF, 'lib', 'engine.py')]):
        for i, line in enumerate(open(f), 1):
            if ('CSTL_ASSUME(' in line or '__CPROVER_assume(' in line) and '#define' not in line:
                out.append('%s:%d: %s' % (os.path.relpath(f, engine.VERIF), i, line.strip()[:160]))
    return out


def retag(prop, u, r, o):
    """the property tags of an obligation as of NOW (spec file, range-form membership), not as cached"""
    if o['kind'] == 'postcondition' and u is not None and hasattr(u, 'spec') and r['function'] in u.spec.funcs:
        # tags come from the CURRENT spec file (a cached result may predate a re-tagging)
        cid = o['id'].rsplit('/ensures.', 1)[-1]
        for c in u.spec.funcs[r['function']].clauses:
            if c.kind == 'ensures' and c.id == cid:
                o = dict(o, tags=list(c.tags))
    if o['kind'] == 'relational' and getattr(u, 'also_for', None) == prop and prop not in o['tags']:
        # range form == single forms in order: part of the decision of every property that names the range forms
        o = dict(o, tags=list(o['tags']) + [prop])
    return o


_CG = {}


def callgraph(gdir):
    """(access of every extracted function, public functions that reach each function through calls) from info.json"""
    if gdir in _CG:
        return _CG[gdir]
    acc, calls = {}, {}
    try:
        for c in json.load(open(os.path.join(gdir, 'gen', 'info.json'))):
            for f in c['functions']:
                acc[f['cname']] = f['access']
                calls[f['cname']] = list(f.get('calls', []))
    except Exception:
        pass
    reach = {}
    for f in acc:
        seen, todo = set(), [f]
        while todo:
            x = todo.pop()
            for y in calls.get(x, []):
                if y not in seen:
                    seen.add(y)
                    todo.append(y)
        for y in seen:
            if acc[f] == 'public':
                reach.setdefault(y, set()).add(f)
    _CG[gdir] = (acc, reach)
    return _CG[gdir]


def is_helper(gdir, fn):
    """a private member function: its contract is a lemma; the properties speak about the public operations"""
    acc, _ = callgraph(gdir)
    return acc.get(fn) == 'private'


def refutes(prop, u, r, gdir=None):
    """does this unit result refute an obligation of prop that is not a listed known finding?  (quick tier: the
    remaining units are not waited for once the verdict is a violation)"""
    if r.get('status') != 'done':
        return False
    if gdir and is_helper(gdir, r.get('function')):
        return False  # a helper's failed contract alone is not yet a verdict (see corroborated_by_callers): keep going
    known = load_known()
    for o in r['obligations']:
        if o['kind'] in ('vacuity', 'unwind', 'spec-sanity') or o['status'] != 'FAILURE':
            continue
        o = retag(prop, u, r, o)
        if prop in o['tags'] and not any(f.get('status') == 'known' and f.get('property') == prop and re.search(f['match'], o['id']) for f in known):
            return True
    return False


def corroborated_by_callers(prop, gdir, viol, results, unit_by_id):
    """Contracts of private helpers are lemmas: every unit verifies its function with the BODIES of its callees inlined, so
    the units of the public methods do not rest on the helpers' contracts.  When the only refuted obligations belong to
    helpers, and every public method that (transitively) calls the helper was verified in this run -- same route, capacity
    at least the helper unit's (range forms: any capacity, provided a single-key caller qualifies), every unit finished,
    none refuted, and they carry obligations of this property -- the property holds on everything explored: a
    responsibility has moved across a function boundary and the helper's contract needs updating.  Otherwise the
    refutation stands.  Returns (remaining violations, NOTE lines)."""
    if not viol or any(not is_helper(gdir, o['function']) for o in viol):
        return viol, []
    if any(o['function'].startswith(('ut_map__', 'ut_set__')) for o in viol):
        # ut_map/ut_set have no capacity: MAXCAP bounds the STORED ENTRIES and the public insert needs room below it, so
        # the public units explore fewer entries than the helper units do: no corroboration, the refutation stands
        return viol, []
    _, reach = callgraph(gdir)
    notes = []
    for o in viol:
        callers = reach.get(o['function'], set())
        if not callers:
            return viol, []
        is_u = '/U' in o['unit'].split('__', 1)[-1] and o.get('maxcap', 0) == 0
        lock = '/lockcov' in o['unit']
        single_ok = False
        for f in callers:
            rangeform = 'range' in f or f.endswith('__it')
            rs = [r for r in results if r.get('function') == f and ('/lockcov' in r['unit']) == lock and (rangeform or '/REL/' not in r['unit'])
                  and ((r.get('route') == 'U') == is_u)]
            if not is_u and not rangeform:
                rs = [r for r in rs if r.get('maxcap', 0) >= o.get('maxcap', 0)]
            if not rs and rangeform:
                continue  # this check has no unit of its own for the range form (it repeats the single-key form: C18)
            if not rs or any(r.get('status') != 'done' for r in rs):
                return viol, []
            tagged = 0
            for r in rs:
                u = unit_by_id.get(r['unit'])
                for x in r['obligations']:
                    if x['kind'] in ('vacuity', 'unwind', 'spec-sanity'):
                        continue
                    if x['status'] != 'SUCCESS':
                        return viol, []   # ANY obligation of a public caller, whatever property it is tagged with
                    x = retag(prop, u, r, x)
                    if prop in x['tags']:
                        tagged += 1
            if tagged == 0:
                return viol, []
            if not rangeform:
                single_ok = True
        if not single_ok:
            return viol, []
        notes.append('NOTE: helper contract no longer holds: %s -- every public method that uses %s still meets its contract for %s at the same capacity, so this is not a violation of the property; the helper\'s contract (contracts/*.spec) needs updating' % (o['id'], o['function'], prop))
    return [], notes


def decide(prop, tier, seed, gdir, units, results, notes, wall):
    undec = []
    undec_fn = {}   # 'no verdict' entries -> the function of their unit
    u_timeouts = []
    obls = []
    unit_by_id = {u.id: u for u in units}
    for r in results:
        if r['status'] == 'cancelled':
            undec.append('%s: not run to the end (a violation had been found already)' % r['unit'])
            continue
        if r['status'] == 'timeout' and r.get('route') == 'U':
            # route U is the every-capacity upgrade of obligations that route B decides at bounded capacity: a z3 query that
            # does not finish leaves the bounded result standing (fewer every-capacity obligations in the evidence)
            u_timeouts.append('%s: %s' % (r['unit'], r.get('error', 'timeout')))
            continue
        if r['status'] != 'done':
            undec.append('%s: %s %s' % (r['unit'], r['status'], r.get('error', '')[:400]))
            continue
        vac = [o for o in r['obligations'] if o['kind'] == 'vacuity']
        if not vac or any(o['status'] != 'FAILURE' for o in vac):
            undec.append('%s: vacuity sentinel did not fail: the preconditions are contradictory (or the harness is unreachable)' % r['unit'])
        u = unit_by_id.get(r['unit'])
        for o in r['obligations']:
            if o['kind'] == 'vacuity':
                continue
            o = retag(prop, u, r, o)
            if o['status'] not in ('SUCCESS', 'FAILURE'):
                # the back end gave no verdict for this obligation (solver killed, out of memory, ...): undecided
                undec.append('%s: no verdict (%s) for %s' % (r['unit'], o['status'], o['id'][:120]))
                undec_fn[undec[-1]] = r['function']
                continue
            if o['kind'] in ('unwind', 'spec-sanity') and o['status'] != 'SUCCESS':
                undec.append('%s: %s %s: %s' % (r['unit'], o['kind'], o['status'], o['desc'][:200]))
                continue
            if prop in o['tags']:
                o = dict(o, unit=r['unit'], function=r['function'], maxcap=r['maxcap'], solver_s=r.get('solver_s'), modular=bool(r.get('replaced')))
                obls.append(o)
    refuted = [o for o in obls if o['status'] == 'FAILURE']
    known = load_known()
    lines = []
    viol = []
    for o in refuted:
        k = [f for f in known if f.get('status') == 'known' and f.get('property') == prop and re.search(f['match'], o['id'])]
        if k:
            lines.append('KNOWN-FINDING: property=%s %s (obligation %s)' % (prop, k[0]['what'], o['id']))
        else:
            viol.append(o)
    helpers_refuted = set(o['function'] for o in viol)
    viol, helper_notes = corroborated_by_callers(prop, gdir, viol, results, unit_by_id)
    for n in helper_notes:
        lines.append(n)
    if helper_notes:
        # obligations of the same helper units that got no verdict (CBMC reports UNKNOWN behind a failed assertion) go with them
        undec = [x for x in undec if undec_fn.get(x) not in helpers_refuted]
    lifetime = None
    if prop == 'C08':
        # supporting static fact for "values destroyed exactly once" (lib/lifetime_scan.py): no hand-managed lifetimes anywhere
        # in cappuccino::; a hit is UNDECIDED (exit 2), never a violation
        import lifetime_scan
        lifetime = lifetime_scan.scan(engine.REPO)
        if not lifetime['ok']:
            undec.append('lifetime scan: ' + lifetime.get('error', '')[:300])
        for h in lifetime['hits']:
            undec.append('lifetime scan: %s -- value lifetimes are no longer managed by the std:: containers alone; "destroyed exactly once" is not decided' % h)
    cosd = json.load(open(os.path.join(gdir, 'OK'))).get('cosim', {})
    cos = cosd.get('calls', 0)
    ev = dict(property_id=prop, tier=tier, seed=seed,
              level='other',
              coverage=dict(
                  explanation='Contract-based deductive verification of the mechanically extracted real code: every listed function is checked against its contract (goto-instrument --dfcc --enforce-contract; CBMC/MiniSat) from an ARBITRARY state satisfying the representation invariant, with symbolic keys, values, clock readings, allow/peek arguments and symbolic capacity in [1,%d] -- unbounded in history length, BOUNDED in capacity (labelled bounded, not counted as proved).' % max([u.maxcap for u in units if u.maxcap] or [0]),
                  obligations=len(obls), discharged=len(obls) - len(refuted),
                  functions_under_contract=sorted(set(notes['functions'])),
                  unbounded_capacity=dict(
                      note='route U: obligations discharged for EVERY capacity (symbolic capacity, infinite node pools, cbmc --z3); all other obligations are bounded in capacity',
                      obligations=sum(1 for o in obls if '/U/' in o['id']), discharged=sum(1 for o in obls if '/U/' in o['id'] and o['status'] == 'SUCCESS'),
                      functions=sorted(set(o['function'] for o in obls if '/U/' in o['id']))),
                  containers=notes['containers'],
                  backend='cbmc 6.11.0 --dfcc, MiniSat (SAT), capacity bound per unit in the obligation id (B<n>)',
                  solver_seconds=round(sum(r.get('solver_s', 0) or 0 for r in results), 1),
                  units=len(units), units_cached=sum(1 for r in results if r.get('cached')),
                  checker_cmd=next((r.get('checker_cmd') for r in results if r.get('checker_cmd')), ''),
                  trusted_base=TRUSTED,
                  traces_validated_against_impl=cos,
                  cosim_undefined_behaviour=[dict(container=u['container'], how=u['how']) for u in cosd.get('ub', [])],
                  samples=[dict(id=o['id'], status=o['status'], kind=o['kind'], expr=o.get('expr', o['desc'])[:200]) for o in (refuted[:5] + [x for x in obls if x['kind'] == 'postcondition'][:12])],
                  undecided=undec, route_u_not_finished=u_timeouts, **(dict(static_lifetime_facts=lifetime) if lifetime else {})),
              assumptions=scan_assumptions() + ['bounded stand-in: capacity <= %d in these obligations' % max([u.maxcap for u in units if u.maxcap] or [0])] + u_assumptions(results),
              wall_s=round(wall, 1), violations=len(viol))
    os.makedirs(os.path.join(engine.VERIF, 'evidence'), exist_ok=True)
    json.dump(ev, open(os.path.join(engine.VERIF, 'evidence', prop + '.json'), 'w'), indent=1)
    for l in lines:
        print(l)
    for t in u_timeouts:
        print('NOTE: route U unit did not finish, the bounded (route B) result stands: ' + t)
    print('%s %s: %d obligations, %d discharged, %d refuted (%d known%s), %d units (%d cached), %.0fs' % (prop, tier, len(obls), len(obls) - len(refuted), len(refuted), len(refuted) - len(viol) - len(helper_notes),
          ', %d helper contract only' % len(helper_notes) if helper_notes else '', len(units), ev['coverage']['units_cached'], wall))
    if viol:
        import replay_gen
        seen = set()
        for o in viol:
            base = re.sub(r'/B\d+', '', o['id'])
            if base in seen:
                continue
            seen.add(base)
            path, found = replay_gen.make_replay(prop, o, unit_by_id.get(o['unit']), gdir)
            print('VIOLATION property=%s replay=%s%s' % (prop, path, '' if found else ' no-failing-input-found'))
        return 1
    if undec:
        for u in undec[:20]:
            print('UNDECIDED: ' + u)
        return 2
    if not obls:
        print('UNDECIDED: no obligation carries the tag %s' % prop)
        return 2
    return 0


def replay_file(path):
    import replay_gen
    return replay_gen.rerun(path)
