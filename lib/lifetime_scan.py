#!/usr/bin/env python3
"""lifetime_scan -- SUPPORTING STATIC FACT for the "values destroyed exactly once" half of C08 (not a contract, not a
proof obligation; reported separately in evidence/C08.json under coverage.static_lifetime_facts).

The scalar instantiation key_type = value_type = uint64_t erases constructor/destructor events, so no contract on the
extracted C can state "destroyed exactly once".  What CAN be decided mechanically on every run is that the library
never manages an object's lifetime by hand: in the clang AST of every cappuccino:: declaration (templates AND their
explicit instantiations, method bodies AND data members) there is

  no new / delete expression (incl. placement new), no explicit or pseudo destructor call,
  no reinterpret_cast, no union, no std::aligned_storage / aligned_union / launder / construct_at / destroy_at /
  uninitialized_* / memcpy / memmove / memset / malloc / free / allocator_traits::construct/destroy, no raw-pointer data member.

Then every value_type object is a subobject of an element of a std:: container, a parameter, a local or a returned
optional/pair; its lifetime is RAII-managed by the standard library, whose contract (C08 (a)-(d): no operation of a
std:: container is called outside its precondition) gives "destroyed exactly once".  A hit makes C08 UNDECIDED
(exit 2) with the construct and its source line -- never a VIOLATION: manual lifetime management is not wrong in
itself, it is beyond what this machinery decides."""
import sys, os, json, subprocess
VERIF = os.path.dirname(os.path.dirname(os.path.abspath(__file__)))

BAD_KINDS = {
    'CXXNewExpr': 'new expression', 'CXXDeleteExpr': 'delete expression',
    'CXXPseudoDestructorExpr': 'pseudo destructor call', 'CXXReinterpretCastExpr': 'reinterpret_cast',
}
BAD_NAMES = ('aligned_storage', 'aligned_union', 'launder', 'construct_at', 'destroy_at', 'destroy_n', 'uninitialized_',
             'memcpy', 'memmove', 'memset', 'malloc', 'calloc', 'realloc', 'free', 'get_temporary_buffer', 'operator new', 'operator delete', 'operator new[]', 'operator delete[]')


def load_objs(s):
    dec = json.JSONDecoder()
    i, n, objs = 0, len(s), []
    while i < n:
        while i < n and s[i].isspace():
            i += 1
        if i >= n:
            break
        o, i = dec.raw_decode(s, i)
        objs.append(o)
    return objs


def scan(repo):
    cmd = ['clang++', '-std=c++17', '-DEXTRACT_NOTS', '-I' + os.path.join(repo, 'inc'), '-fsyntax-only', '-Xclang', '-ast-dump=json',
           '-Xclang', '-ast-dump-filter=cappuccino::', os.path.join(VERIF, 'extract', 'inst.cpp')]
    p = subprocess.run(cmd, stdout=subprocess.PIPE, stderr=subprocess.PIPE, text=True)
    if p.returncode != 0:
        return dict(ok=False, error='clang rejects the tree: ' + p.stderr[-500:], hits=[], nodes=0)
    hits, count = [], [0, 0, 0]   # nodes, member functions with a body, data members
    line = [None]

    def where(n):
        loc = n.get('loc') or (n.get('range') or {}).get('begin') or {}
        loc = loc.get('expansionLoc', loc)
        if 'line' in loc:
            line[0] = loc['line']
        return 'line %s' % line[0]

    def walk(n, inrec):
        if not isinstance(n, dict):
            return
        count[0] += 1
        k = n.get('kind')
        w = where(n)
        if k in BAD_KINDS:
            hits.append('%s (%s)' % (BAD_KINDS[k], w))
        if k == 'CXXRecordDecl' and n.get('tagUsed') == 'union':
            hits.append('union %s (%s)' % (n.get('name', ''), w))
        if k == 'CXXMemberCallExpr' or k == 'MemberExpr':
            nm = n.get('name') or ''
            if nm.startswith('~'):
                hits.append('explicit destructor call %s (%s)' % (nm, w))
        if k in ('DeclRefExpr', 'MemberExpr', 'UnresolvedLookupExpr', 'UnresolvedMemberExpr', 'CXXDependentScopeMemberExpr', 'DependentScopeDeclRefExpr'):
            nm = (n.get('referencedDecl') or {}).get('name') or n.get('name') or n.get('member') or ''
            if any(nm == b or (b.endswith('_') and nm.startswith(b)) for b in BAD_NAMES):
                hits.append('call/reference of %s (%s)' % (nm, w))
        if k == 'FieldDecl':
            count[2] += 1
            t = (n.get('type') or {}).get('qualType', '')
            dt = (n.get('type') or {}).get('desugaredQualType', t)
            if t.rstrip().endswith('*') or dt.rstrip().endswith('*') or any(b in t or b in dt for b in ('aligned_storage', 'aligned_union', 'unique_ptr', 'shared_ptr')):
                hits.append('data member %s of type %s (%s)' % (n.get('name'), t, w))
        if k in ('CXXMethodDecl', 'CXXConstructorDecl', 'CXXDestructorDecl', 'FunctionDecl') and any(c.get('kind') == 'CompoundStmt' for c in n.get('inner', []) if isinstance(c, dict)):
            count[1] += 1
            if k == 'CXXDestructorDecl' and not n.get('isImplicit'):
                hits.append('user-written destructor %s (%s)' % (n.get('name'), w))
        for c in n.get('inner', []) or []:
            walk(c, inrec)

    sys.setrecursionlimit(100000)
    for o in load_objs(p.stdout):
        walk(o, False)
    return dict(ok=True, hits=sorted(set(hits)), nodes=count[0], function_bodies=count[1], data_members=count[2],
                what='clang AST of every cappuccino:: declaration (templates and the explicit instantiations of extract/inst.cpp): no new/delete/placement new, explicit or pseudo destructor call, user-written destructor, reinterpret_cast, union, aligned_storage, construct_at/destroy_at/uninitialized_*, mem*/malloc family, raw or smart pointer data member',
                consequence='every value_type object is a subobject of a std:: container element, a parameter, a local or a returned optional/pair: its lifetime is managed by the standard library alone, so "destroyed exactly once" follows from the std:: preconditions discharged as C08 obligations (supporting static fact, not a contract)')


if __name__ == '__main__':
    r = scan(sys.argv[1] if len(sys.argv) > 1 else os.environ.get('VERIF_REPO', '/repo'))
    print(json.dumps(r, indent=1))
    sys.exit(0 if r['ok'] and not r['hits'] else 2)
