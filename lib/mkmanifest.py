#!/usr/bin/env python3
"""mkmanifest.py -- writes /verif/MANIFEST.json from the table below (kept in one place so that the
claims, the level notes and the not_applicable list stay consistent)."""
import json, os
VERIF = os.path.dirname(os.path.dirname(os.path.abspath(__file__)))

BOUNDED = ('Contract-based deductive verification of the mechanically extracted real code (clang AST -> C on every run): per-function contracts '
           '(requires/ensures/assigns over the representation invariant wf and the abstract view) enforced by goto-instrument --dfcc and discharged by CBMC from an '
           'arbitrary wf state with symbolic keys/values/clock/arguments. Unbounded in history length and data; bounded in capacity (quick: capacity<=3, heaviest units <=2, symmetry-reduced pre-state; thorough: capacity<=3 unreduced) '
           'except where route U (cbmc --z3 over infinite node pools, symbolic capacity) discharges the same obligations for every capacity: lru, mru, rr, lfu, part of fifo, and for every number of entries: ut_map, ut_set (public methods relative to the purge loop\'s contract); '
           'so the level is "other" (bounded stand-in), not "proof".')
NOTE = ('Trusted: C contracts of std::list/unordered_map/map/multimap/vector/mutex in /verif/cstl (co-simulated against libstdc++ through the real library on every run); '
        'extraction fidelity (co-simulation); uint64_t instantiation stands for all key/value types (parametricity argued, not proved); no allocation failure/exceptions; '
        'history induction (DESIGN.md section 5) not machine-checked; CBMC/MiniSat sound.')

CLAIMS = {
    # id: (containers covered so far, extra note)
}

NOT_YET = {}

def main():
    props = [json.loads(l) for l in open(os.path.join(VERIF, 'properties.jsonl'))]
    cover = json.load(open(os.path.join(VERIF, 'lib', 'coverage.json')))
    checks, na = [], []
    for p in props:
        pid = p['id']
        c = cover.get(pid)
        if not c or not c.get('claimed'):
            na.append(dict(property_id=pid, reason=(c or {}).get('reason', 'check not built yet in this round; see DESIGN.md section 8 for the planned contracts')))
            continue
        checks.append(dict(
            property_id=pid,
            quick_cmd='bin/check %s --tier quick' % pid,
            thorough_cmd='bin/check %s --tier thorough' % pid,
            evidence_file='evidence/%s.json' % pid,
            replay_cmd_template='bin/check --replay {path}',
            engine='cbmc-dfcc',
            level_claimed=dict(category=c.get('category', 'other'), text=c.get('text', BOUNDED) + ' Covered: ' + c['covered'], design_ref=c.get('design_ref', 'DESIGN.md section 8')),
            level_note=NOTE + ' ' + c.get('note', ''),
            technique=c.get('technique', 'code contracts on extracted C: goto-instrument DFCC + CBMC (bounded capacity) and cbmc --z3 harnesses (unbounded capacity) for lru/mru/rr/lfu/fifo/ut_map/ut_set')))
    m = dict(version=1,
             setup_cmd='bin/check --setup',
             hooks=dict(guard='CAPPUCCINO_VERIF_HOOKS', enable='none needed: the technique adds no instrumentation to /repo (contracts live in /verif/contracts, keyed by function name)',
                        baseline_off_cmd='cmake -G Ninja -B /repo/_build -S /repo >/dev/null && cmake --build /repo/_build >/dev/null && ctest --test-dir /repo/_build -j8 --timeout 900',
                        source_commits=[], add_only=True),
             engines=[dict(name='cbmc-dfcc', path='bin/check', serves_properties=[c['property_id'] for c in checks],
                           kind_free_text='clang JSON AST -> C extraction (extract/ast2c.py) + C contracts of std:: (cstl/, cstl_u/) + per-function contracts (contracts/*.spec) enforced with goto-instrument --dfcc and discharged by cbmc 6.11; unbounded-capacity harnesses (contracts_u/) discharged by cbmc --z3; relational harnesses for range operations (lib/rel.py)')],
             checks=checks,
             notes='See DESIGN.md section 0 for what was built. Six fix: commits in /repo (rr back-pointer, lfuda age order, utlru ttl order, observers under the lock, utlru ttl under the lock, tlru pre-lock read) are recorded in known_findings.json; one known finding remains (F5: ut_map/ut_set with a zero TTL). Every quick check finishes within 900 s cold on 16 cores (route U units first, 500 s each; an unfinished route U unit leaves the bounded result standing). Both tiers stop at the first refuted obligation of a public method; a refuted contract of a private helper is a violation unless every public method that uses it was verified in the same run at the same capacity with nothing refuted (DESIGN.md section 16). 63 seeded changes from sub-agents: 62 detected, one refused by design (exit 2); 14 behaviour-preserving refactorings: no alarm.',
             not_applicable=na)
    json.dump(m, open(os.path.join(VERIF, 'MANIFEST.json'), 'w'), indent=1)
    print('MANIFEST: %d claimed, %d not claimed' % (len(checks), len(na)))

if __name__ == '__main__':
    main()
