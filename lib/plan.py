"""plan.py -- which proof units decide which property"""
import os, json, glob
import engine, specparse

# quick: capacity <= 3 from a symmetry-reduced pre-state (node ids canonically numbered; sound because the
# extracted code, the std models and the specifications use node ids only as opaque names: ==, != and
# array indexing, allocation picks ANY free id -- the extractor has no rule for any other use);
# thorough: capacity <= 3 from the unreduced pre-state.
QUICK = dict(caps=[3], sym=True)
THOROUGH = dict(caps=[3], sym=False)
LOCK_PROPS = ('C06', 'C07')


def case_list(fs):
    """case splits of the precondition: 'split = E' (E / !E) and 'cases = A ;; B ;; ...' (the disjuncts of a
    requires clause of the same function); the product of both.  Every case is its own proof unit."""
    split = fs.opts.get('split')
    a = [None] if not split else [split, '!(%s)' % split]
    cs = fs.opts.get('cases')
    b = [None] if not cs else [x.strip() for x in cs.split(';;')]
    out = []
    for x in a:
        for y in b:
            e = ' && '.join('(%s)' % z for z in (x, y) if z)
            out.append((len(out), e) if e else None)
    return out


def load(gdir):
    gen = os.path.join(gdir, 'gen')
    infos = {i['cname']: i for i in json.load(open(os.path.join(gen, 'info.json')))}
    specs = {}
    for p in sorted(glob.glob(os.path.join(engine.VERIF, 'contracts', '*.spec'))):
        sp = specparse.parse(p)
        if sp.container not in infos:
            raise engine.Undecided('contract anchor missing: container %s is not in the extracted set' % sp.container)
        for fn in sp.order:
            if fn not in [f['cname'] for f in infos[sp.container]['functions']]:
                raise engine.Undecided('contract anchor missing: %s (renamed or removed); the contract cannot be checked' % fn)
        specs[sp.container] = sp
    return gen, infos, specs


def units_for(prop, tier, gdir):
    gen, infos, specs = load(gdir)
    cfg = QUICK if tier == 'quick' else THOROUGH
    caps = cfg['caps']
    units = []
    notes = dict(containers=[], functions=[])
    for cn, sp in specs.items():
        if prop not in sp.props and prop not in LOCK_PROPS:
            continue
        fns = []
        for fn in sp.order:
            fs = sp.funcs[fn]
            tagged = any(prop in c.tags for c in fs.clauses if c.kind == 'ensures')
            if tagged or prop == 'C08':
                fns.append(fn)
        if not fns:
            continue
        notes['containers'].append(cn)
        for fn in fns:
            notes['functions'].append(fn)
            for mc in ([int(sp.funcs[fn].opts['quickcap'])] if tier == 'quick' and 'quickcap' in sp.funcs[fn].opts else caps):
                to = int(sp.funcs[fn].opts.get('timeout', '1500' if tier == 'quick' else '3600'))
                for case in case_list(sp.funcs[fn]):
                    units.append(engine.Unit(cn, fn, mc, sp, infos[cn], gen, timeout=to, sym=cfg['sym'], case=case))
            if tier == 'thorough' and sp.funcs[fn].opts.get('modular') == 'yes':
                units.append(engine.Unit(cn, fn, 2, sp, infos[cn], gen, timeout=3600, modular=True))
    return units, notes
