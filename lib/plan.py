"""plan.py -- which proof units decide which property"""
import os, json, glob
import engine, specparse

# quick: capacity <= 3 from a symmetry-reduced pre-state (node ids canonically numbered; sound because the
# extracted code, the std models and the specifications use node ids only as opaque names: ==, != and
# array indexing, allocation picks ANY free id -- the extractor has no rule for any other use);
# thorough: capacity <= 3 from the unreduced pre-state.
QUICK = dict(caps=[3], sym=True)
THOROUGH = dict(caps=[3], sym=False)
LIGHT = ('lru_cache', 'mru_cache', 'rr_cache', 'fifo_cache', 'lfu_cache', 'ut_map', 'ut_set')
LOCK_PROPS = ('C06', 'C07')


def case_list(fs, tier='thorough'):
    """case splits of the precondition: 'split = E' (E / !E) and 'cases = A ;; B ;; ...' (the disjuncts of a
    requires clause of the same function); the product of both.  Every case is its own proof unit."""
    split = fs.opts.get('split')
    a = [None] if not split else [split, '!(%s)' % split]
    cs = fs.opts.get('quickcases') if tier == 'quick' and fs.opts.get('quickcases') else fs.opts.get('cases')
    b = [None] if not cs else [x.strip() for x in cs.split(';;')]
    # case numbers identify the unit: the full `cases` list of a function that also has `quickcases` is numbered from
    # 100 so that its units never share an id with the quick-tier units
    base = 100 if (cs and fs.opts.get('quickcases') and cs == fs.opts.get('cases')) else 0
    out = []
    for x in a:
        for y in b:
            e = ' && '.join('(%s)' % z for z in (x, y) if z)
            out.append((base + len(out), e) if e else None)
    return out


# properties whose statement quantifies over the range forms by name: their decision also needs "range form == the single
# forms in order" for the range forms of the single operations that carry the property
RANGE_PROPS = ('C01', 'C05', 'C09', 'C10', 'C11', 'C12', 'C13')
QUICK_RANGE_OPS = {'C01': ('find',), 'C05': ('insert',), 'C09': ('insert',)}


def single_of(opname):
    """the single operation a range form repeats: insert_range -> insert, find_range_fill__it -> find, ..."""
    return opname.split('__')[0].split('_')[0]


def rel_units(cn, op, sp, infos, gen, tier, ttl_positive_only=False):
    import rel
    units = []
    cases = [None]
    if cn in ('ut_map', 'ut_set'):
        pf = rel.CONF[cn][0]
        cases = [(0, '%s_ttl(&s1) > 0' % pf)] + ([] if ttl_positive_only else [(1, '!(%s_ttl(&s1) > 0)' % pf)])
    # quick: the three heaviest containers compare ONE element for insert_range (the loop is uniform),
    # lfuda at the default ratio.  thorough: the quick units plus two elements for the heavy ones and
    # capacity <= 3 for the light containers
    heavy = cn in ('tlru_cache', 'utlru_cache', 'lfuda_cache') and op[0].startswith('insert')
    xa = 's1.m_dynamic_age_ratio == 0.5f' if cn == 'lfuda_cache' else None
    for case in cases:
        # ut_map/ut_set have no capacity: MAXCAP bounds the stored entries, and the pre-state must be able to hold an
        # (expired) entry besides the range's keys, so these run at MAXCAP 3 also in the quick tier
        mc = 3 if cn in ('ut_map', 'ut_set') else 2
        units.append(rel.RelUnit(cn, op, mc, sp, infos[cn], gen, timeout=800 if tier == 'quick' else 7200, case=case, rlen=1 if heavy else rel.RLEN, extra_assume=xa))
        if cn in LIGHT and mc != 3 and op[0].startswith('insert'):
            # a range LONGER than the capacity with a repeated key: three elements at capacity <= 2
            units.append(rel.RelUnit(cn, op, 2, sp, infos[cn], gen, timeout=800 if tier == 'quick' else 7200, case=case, rlen=3, extra_assume=xa))
        if tier == 'thorough':
            if heavy:
                units.append(rel.RelUnit(cn, op, 2, sp, infos[cn], gen, timeout=7200, case=case, rlen=rel.RLEN, extra_assume=xa))
            elif cn in LIGHT and mc != 3:
                units.append(rel.RelUnit(cn, op, 3, sp, infos[cn], gen, timeout=7200, case=case, rlen=rel.RLEN, extra_assume=xa))
    return units


def load(gdir):
    gen = os.path.join(gdir, 'gen')
    infos = {i['cname']: i for i in json.load(open(os.path.join(gen, 'info.json')))}
    specs = {}
    for p in sorted(glob.glob(os.path.join(engine.VERIF, 'contracts', '*.spec'))):
        sp = specparse.parse(p)
        if sp.container not in infos:
            raise engine.Undecided('contract anchor missing: container %s is not in the extracted set' % sp.container)
        sp.dropped = []
        for fn in list(sp.order):
            if fn not in [f['cname'] for f in infos[sp.container]['functions']]:
                if '__do_' in fn and fn.split('__', 1)[1].startswith('do_'):
                    # a private helper (every do_* member is private) was folded into its callers or renamed: its contract is a
                    # lemma, not part of any property (DESIGN.md section 16); the public methods' contracts still decide
                    # every property, with whatever now implements them inlined.  The helper's units are dropped with a NOTE,
                    # and so are the container's route U units (their harness file names the helper): bounded results stand.
                    sp.dropped.append(fn)
                    sp.order.remove(fn)
                    sp.funcs.pop(fn, None)
                    continue
                raise engine.Undecided('contract anchor missing: %s (renamed or removed); the contract cannot be checked' % fn)
        specs[sp.container] = sp
    return gen, infos, specs


def units_for(prop, tier, gdir):
    gen, infos, specs = load(gdir)
    cfg = QUICK if tier == 'quick' else THOROUGH
    caps = cfg['caps']
    units = []
    notes = dict(containers=[], functions=[])
    if prop in LOCK_PROPS:
        # lock discipline: the same contracts enforced on the lock-coverage instrumentation of the extracted
        # code (an assertion "lock held" before every access to a data member).  No data, no capacity in these
        # obligations: capacity <= 2 reaches every statement (quick), capacity <= 3 in thorough.
        for cn, sp in specs.items():
            notes['containers'].append(cn)
            for fn in sp.order:
                if fn.endswith('__ctor'):
                    continue
                notes['functions'].append(fn)
                for case in case_list(sp.funcs[fn], 'quick'):
                    units.append(engine.Unit(cn, fn, 2, sp, infos[cn], gen, timeout=3600, sym=True, case=case, lockcov=True, rangelen=1))
                if tier == 'thorough' and cn in LIGHT:
                    for case in case_list(sp.funcs[fn], tier):
                        units.append(engine.Unit(cn, fn, 3, sp, infos[cn], gen, timeout=7200, sym=True, case=case, lockcov=True, rangelen=2))
        return units, notes
    if prop == 'C18':
        import rel
        for cn, sp in specs.items():
            if cn not in rel.CONF:
                continue
            notes['containers'].append(cn)
            for op in rel.ops_for(cn):
                notes['functions'].append('%s__%s' % (cn, op[0]))
                units += rel_units(cn, op, sp, infos, gen, tier)
        return units, notes
    for cn, sp in specs.items():
        if prop not in sp.props:
            continue
        fns = []
        for fn in sp.order:
            fs = sp.funcs[fn]
            tagged = any(prop in c.tags for c in fs.clauses if c.kind == 'ensures')
            if tagged or prop == 'C08':
                fns.append(fn)
        if not fns:
            continue
        notes['containers'].append(cn)
        for fn in fns:
            notes['functions'].append(fn)
            fo = sp.funcs[fn].opts
            qcap = int(fo['quickcap']) if 'quickcap' in fo else 3
            for case in case_list(sp.funcs[fn], 'quick'):
                units.append(engine.Unit(cn, fn, qcap, sp, infos[cn], gen, timeout=int(fo.get('timeout', '1500')), sym=True, case=case, rangelen=1))
            if tier == 'thorough':
                # deeper: the light containers from the UNREDUCED pre-state at capacity <= 3 with ranges of two elements;
                # tlru/utlru at capacity <= 3 also for the functions the quick tier runs at 2; lfuda all five ratios
                if cn in LIGHT:
                    for case in case_list(sp.funcs[fn], tier):
                        units.append(engine.Unit(cn, fn, 3, sp, infos[cn], gen, timeout=7200, sym=False, case=case, rangelen=2))
                        if 'SPEC_RANGE_LEN' not in ' '.join(c.expr for c in sp.funcs[fn].clauses):
                            # larger capacities from the symmetry-reduced pre-state (cost grows gently with it)
                            # (measured: capacity 4 < 2.5 min per unit everywhere; 5 and 6 < 10 min for lru and mru, 5 < 2 min
                            # for fifo; single units of rr, lfu, ut_map, ut_set at 5 or 6 ran for 1-2 h or into the limit)
                            for bigcap in {'lru_cache': (4, 5, 6), 'mru_cache': (4, 5, 6), 'fifo_cache': (4, 5)}.get(cn, (4,)):
                                units.append(engine.Unit(cn, fn, bigcap, sp, infos[cn], gen, timeout=7200, sym=True, case=case, rangelen=1))
                elif cn in ('tlru_cache', 'utlru_cache') and qcap != 3 and 'SPEC_RANGE_LEN' not in ' '.join(c.expr for c in sp.funcs[fn].clauses):
                    for case in case_list(sp.funcs[fn], tier):
                        units.append(engine.Unit(cn, fn, 3, sp, infos[cn], gen, timeout=7200, sym=True, case=case, rangelen=1))
                elif cn == 'lfuda_cache' and 'quickcases' in fo:
                    for case in case_list(sp.funcs[fn], tier):
                        units.append(engine.Unit(cn, fn, qcap, sp, infos[cn], gen, timeout=7200, sym=True, case=case, rangelen=1))
            if tier == 'thorough' and sp.funcs[fn].opts.get('modular') == 'yes':
                units.append(engine.Unit(cn, fn, 2, sp, infos[cn], gen, timeout=3600, modular=True))
    if prop in RANGE_PROPS:
        # the range forms of the single operations that carry this property: the relational units of C18 decide that a range
        # form has the effect of the single forms in order, so what the contracts establish for the single forms holds for the
        # range forms too.  (ut_map/ut_set with a non-positive TTL: decided under C18, known finding F5.)
        import rel
        for cn in list(notes['containers']):
            if cn not in rel.CONF:
                continue
            sp = specs[cn]
            for op in rel.ops_for(cn):
                fs = sp.funcs.get('%s__%s' % (cn, single_of(op[0])))
                if not fs or not any(prop in c.tags for c in fs.clauses if c.kind == 'ensures'):
                    continue
                if tier == 'quick' and prop in QUICK_RANGE_OPS and single_of(op[0]) not in QUICK_RANGE_OPS[prop]:
                    continue  # 15-minute budget of a quick check: the range forms the statement is about; all of them in thorough
                notes['functions'].append('%s__%s' % (cn, op[0]))
                for u in rel_units(cn, op, sp, infos, gen, tier, ttl_positive_only=True):
                    if tier == 'quick' and (u.rlen == 3 or (cn in ('tlru_cache', 'utlru_cache', 'lfuda_cache') and op[0].startswith('insert'))):
                        continue  # 15-minute budget (cold C09 measured 677 s with them): these stay in C18's quick check and in this property's thorough check
                    u.also_for = prop
                    units.append(u)
    # route U: unbounded-capacity units (cbmc --z3) for the containers that have them; the quick tier runs the
    # ones that finish in about two minutes, the thorough tier all of them
    import uroute
    for cn in notes['containers']:
        if cn not in uroute.REGISTERED or specs[cn].dropped:
            continue
        for u in uroute.units_for_container(cn, gen):
            if tier == 'thorough' or ((u.short in uroute.QUICK or cn in uroute.QUICK_ALL) and cn not in uroute.THOROUGH_ONLY):
                u.spec = specs[cn]
                if tier == 'quick':
                    u.timeout = 500  # a quick check has 15 minutes; a route U unit that does not finish leaves the bounded result standing
                units.append(u)
    notes['dropped_helpers'] = sorted(fn for cn in notes['containers'] for fn in specs[cn].dropped)
    units = list({u.id: u for u in units}.values())  # identical units (e.g. constructors) are planned once
    units.sort(key=lambda u: 0 if isinstance(u, uroute.UUnit) else 1)  # the z3 units start first (stable sort)
    return units, notes
