/* contracts_u/mru_cache_u.c -- route U harnesses for mru_cache: one entry function per extracted function.
 * Pattern: bind the pools to the top-level infinite arrays; ASSUME wf at an explicit finite instance list
 * (the nodes/slots/entries/keys the operation and the ghost observers touch, and their list neighbours);
 * snapshot the pre-state view at the ghost key; run the extracted function; ASSERT every wf clause at arbitrary
 * ghost instances and the view-level postconditions (the same statements as contracts/mru_cache.spec).
 * Capacity, list length, pool sizes: unbounded (symbolic). */
#include "mru_cache.c"
#include "mru_cache_u.h"
uint64_t G_g, G_h; int64_t G_NOW; uint64_t G_RAND; cstl_ms G_MS; int64_t G_NS;
int64_t cstl_now(void) { return G_NOW; }
uint64_t cstl_rand_range(uint64_t a, uint64_t b) { __CPROVER_assume(a <= G_RAND && G_RAND <= b); return G_RAND; }
cstl_iter G_i, G_j, G_e; uint64_t G_k;
mru_cache S; /* the object; statics are nondeterministic (--nondet-static) */

#define NODE(i) __CPROVER_assume(u_inv_node(self, (i)))
#define ENTRY(e) __CPROVER_assume(u_inv_entry(self, (e)))
#define KEY(k) __CPROVER_assume(u_inv_key(self, (k)))
#define PAIR(i, j) __CPROVER_assume(u_inv_pair(self, (i), (j)) && u_inv_pair(self, (j), (i)))
#define NODEOF_ENTRY(e) (self->m_elements.data[self->P_H.kv[(e)].second].m_mru_position)
#define ENTRYOF_NODE(i) (self->m_elements.data[self->P_L0.val[(i)]].m_keyed_position)
#define NX(i) (self->P_L0.next[(i)])
#define PV(i) (self->P_L0.prev[(i)])

static mru_cache *u_bind(void)
{
    mru_cache *self = &S;
    mru_cache__L0_pool_bind(&self->P_L0); mru_cache__H_pool_bind(&self->P_H); mru_cache__V0_bind(&self->m_elements);
    return self;
}
/* instantiate wf at the given nodes (pairwise too), at the ghost instances and everything the ghosts point to */
static void u_assume_wf(mru_cache *self, cstl_iter *nodes, unsigned n, uint64_t *keys, unsigned nk)
{
    __CPROVER_assume(u_inv0(self));
    cstl_iter all[24]; unsigned m = 0;
    for (unsigned a = 0; a < n; a++) all[m++] = nodes[a];
    cstl_iter h = HEAD(self), end = self->m_mru_end;
    all[m++] = h; all[m++] = NX(h); all[m++] = PV(h); all[m++] = end; all[m++] = PV(end); all[m++] = G_i; all[m++] = G_j; all[m++] = NX(G_i); all[m++] = PV(G_i);
    all[m++] = NODEOF_ENTRY(G_e);
    for (unsigned a = 0; a < nk; a++) all[m++] = NODEOF_ENTRY(self->P_H.idx[keys[a]]);
    for (unsigned a = 0; a < m; a++)
    {
        NODE(all[a]);
        ENTRY(ENTRYOF_NODE(all[a]));
        for (unsigned b = a + 1; b < m; b++) PAIR(all[a], all[b]);
    }
    ENTRY(G_e); KEY(self->P_H.kv[G_e].first); KEY(G_k); ENTRY(self->P_H.idx[G_k]);
    for (unsigned a = 0; a < nk; a++) { KEY(keys[a]); ENTRY(self->P_H.idx[keys[a]]); }
}
#define ASSERT_WF(fn)                                                                                                          \
    __CPROVER_assert(u_inv0(self), "U " fn ": wf scalars (counter, partition iterator, reserve) [C01 C02 C03 C08]");             \
    __CPROVER_assert(u_inv_node(self, G_i), "U " fn ": wf node clause at an arbitrary node [C01 C02 C03 C08 C13]");              \
    __CPROVER_assert(u_inv_pair(self, G_i, G_j), "U " fn ": wf rank/slot injectivity at an arbitrary pair [C01 C08 C13]");       \
    __CPROVER_assert(u_inv_entry(self, G_e), "U " fn ": wf index-entry clause at an arbitrary entry [C01 C02 C03 C08]");         \
    __CPROVER_assert(u_inv_key(self, G_k), "U " fn ": wf key clause at an arbitrary key [C01]");                                 \
    __CPROVER_assert(self->m_elements.size == cap0 && self->m_lock.m_lock.held == held0 && self->m_lock.m_lock.acq == acq0, "U " fn ": frame (capacity, lock state) [C02 C06]")

#define ASSERT_WF_PUB(fn)                                                                                                      \
    __CPROVER_assert(u_inv0(self), "U " fn ": wf scalars (counter, partition iterator, reserve) [C01 C02 C03 C08]");             \
    __CPROVER_assert(u_inv_node(self, G_i), "U " fn ": wf node clause at an arbitrary node [C01 C02 C03 C08 C13]");              \
    __CPROVER_assert(u_inv_pair(self, G_i, G_j), "U " fn ": wf rank/slot injectivity at an arbitrary pair [C01 C08 C13]");       \
    __CPROVER_assert(u_inv_entry(self, G_e), "U " fn ": wf index-entry clause at an arbitrary entry [C01 C02 C03 C08]");         \
    __CPROVER_assert(u_inv_key(self, G_k), "U " fn ": wf key clause at an arbitrary key [C01]");                                 \
    __CPROVER_assert(self->m_elements.size == cap0 && !self->m_lock.m_lock.held && self->m_lock.m_lock.acq == acq0 + 1, "U " fn ": one critical section, capacity unchanged [C02 C06 C07]")

typedef struct { bool has; uint64_t val, ord; } uvw;
static uvw u_view(const mru_cache *c, uint64_t k)
{
    uvw r; r.has = u_has(c, k); r.val = r.has ? u_val(c, k) : 0; r.ord = r.has ? u_ord(c, k) : 0; return r;
}
#define SNAP() uvw g0 = u_view(self, G_g); uint64_t used0 = USED(self), cap0 = CAP(self); bool held0 = self->m_lock.m_lock.held; uint64_t acq0 = self->m_lock.m_lock.acq
#define KEPT(a, b) ((b).has == (a).has && (!(a).has || (b).val == (a).val))

void h_do_erase(void)
{
    mru_cache *self = u_bind();
    uint64_t idx;
    __CPROVER_assume(self->m_lock.m_lock.held && idx < CAP(self));
    cstl_iter x = self->m_elements.data[idx].m_mru_position;
    cstl_iter nodes[] = {x, NX(x), PV(x), PV(PV(self->m_mru_end))};
    uint64_t  keys[] = {G_g};
    u_assume_wf(self, nodes, 4, keys, 1);
    __CPROVER_assume(u_node(self, x) && self->P_L0.val[x] == idx && u_rank(self, x) < USED(self)); /* requires: slot idx is in use */
    uint64_t k = self->P_H.kv[self->m_elements.data[idx].m_keyed_position].first, k_ord = u_rank(self, x);
    KEY(k);
    SNAP();
    mru_cache__do_erase(self, idx);
    uvw g1 = u_view(self, G_g);
    ASSERT_WF("mru do_erase");
    __CPROVER_assert(!u_has(self, k), "U mru do_erase: erased key gone [C01]");
    __CPROVER_assert(G_g == k || KEPT(g0, g1), "U mru do_erase: every other key kept with its value [C01 C03]");
    __CPROVER_assert(G_g == k || !g0.has || g1.ord == g0.ord - (g0.ord > k_ord ? 1 : 0), "U mru do_erase: recency ranks [C13]");
    __CPROVER_assert(USED(self) + 1 == used0, "U mru do_erase: size [C02 C03]");
    __CPROVER_assert(0, "vacuity sentinel");
}

void h_do_prune(void)
{
    mru_cache *self = u_bind();
    __CPROVER_assume(self->m_lock.m_lock.held);
    cstl_iter x = PV(HEAD(self));
    cstl_iter nodes[] = {x, PV(x)};
    uint64_t  keys[] = {G_g};
    u_assume_wf(self, nodes, 2, keys, 1);
    __CPROVER_assume(USED(self) >= CAP(self)); /* requires: full */
    uint64_t k = self->P_H.kv[ENTRYOF_NODE(x)].first, k_ord = u_rank(self, x);
    KEY(k);
    SNAP();
    mru_cache__do_prune(self);
    uvw g1 = u_view(self, G_g);
    ASSERT_WF("mru do_prune");
    __CPROVER_assert(k_ord == cap0 - 1, "U mru do_prune: the victim is the entry of highest rank (most recently used) [C13]");
    __CPROVER_assert(!u_has(self, k), "U mru do_prune: victim gone [C03 C13]");
    __CPROVER_assert(G_g == k || (KEPT(g0, g1) && (!g0.has || g1.ord == g0.ord)), "U mru do_prune: every other key kept, order unchanged [C01 C03 C13]");
    __CPROVER_assert(USED(self) + 1 == used0, "U mru do_prune: size [C02 C03]");
    __CPROVER_assert(0, "vacuity sentinel");
}

void h_do_find(void)
{
    mru_cache *self = u_bind();
    uint64_t key; int peek;
    __CPROVER_assume(self->m_lock.m_lock.held && (peek == cappuccino_peek_no || peek == cappuccino_peek_yes));
    cstl_iter e = self->P_H.idx[key];
    cstl_iter x = NODEOF_ENTRY(e);
    cstl_iter nodes[] = {x, NX(x), PV(x)};
    uint64_t  keys[] = {G_g, key};
    u_assume_wf(self, nodes, 3, keys, 2);
    SNAP();
    uvw k0 = u_view(self, key);
    cstl_opt r = mru_cache__do_find(self, key, peek);
    uvw g1 = u_view(self, G_g), k1 = u_view(self, key);
    ASSERT_WF("mru do_find");
    __CPROVER_assert(r.has == k0.has && (!r.has || r.v == k0.val), "U mru do_find: a hit returns the stored value, a miss reports absent [C01]");
    __CPROVER_assert(KEPT(g0, g1) && KEPT(k0, k1) && USED(self) == used0, "U mru do_find: nothing added, removed or overwritten [C01 C03 C19]");
    __CPROVER_assert(!(k0.has && peek == cappuccino_peek_no) || (k1.ord == used0 - 1 && (G_g == key || !g0.has || g1.ord == g0.ord - (g0.ord > k0.ord ? 1 : 0))), "U mru do_find: a non-peek hit is a use (moves to rank 0) [C13]");
    __CPROVER_assert((k0.has && peek == cappuccino_peek_no) || (!g0.has || g1.ord == g0.ord), "U mru do_find: peek and miss leave the order unchanged [C13 C19]");
    __CPROVER_assert(0, "vacuity sentinel");
}

void h_do_update(void)
{
    mru_cache *self = u_bind();
    cstl_iter kp; uint64_t value;
    __CPROVER_assume(self->m_lock.m_lock.held && kp != UEND && self->P_H.alive[kp]); /* requires: live entry */
    cstl_iter x = NODEOF_ENTRY(kp);
    uint64_t  key = self->P_H.kv[kp].first;
    cstl_iter nodes[] = {x, NX(x), PV(x)};
    uint64_t  keys[] = {G_g, key};
    u_assume_wf(self, nodes, 3, keys, 2);
    ENTRY(kp);
    SNAP();
    uvw k0 = u_view(self, key);
    mru_cache__do_update(self, kp, value);
    uvw g1 = u_view(self, G_g), k1 = u_view(self, key);
    ASSERT_WF("mru do_update");
    __CPROVER_assert(k1.has && k1.val == value && k1.ord == used0 - 1, "U mru do_update: value replaced, entry most recently used [C01 C09 C13]");
    __CPROVER_assert(G_g == key || (KEPT(g0, g1) && (!g0.has || g1.ord == g0.ord - (g0.ord > k0.ord ? 1 : 0))), "U mru do_update: other keys kept, ranks shifted [C01 C03 C13]");
    __CPROVER_assert(USED(self) == used0, "U mru do_update: size [C02 C03]");
    __CPROVER_assert(0, "vacuity sentinel");
}

static void post_insert(mru_cache *self, uint64_t key, uint64_t value, uvw g0, uint64_t used0, uint64_t cap0, bool full, uint64_t victim, const char *unused)
{
    (void)unused;
    uvw g1 = u_view(self, G_g), k1 = u_view(self, key);
    __CPROVER_assert(k1.has && k1.val == value && k1.ord == (full ? cap0 - 1 : used0), "U mru insert path: the new key is stored with its value as the most recently used (newest rank) [C01 C03 C13]");
    __CPROVER_assert(USED(self) == (full ? cap0 : used0 + 1), "U mru insert path: size grows by one unless full [C02 C03]");
    __CPROVER_assert(!full || !u_has(self, victim) || victim == key, "U mru insert path: when full the MOST recently used entry is evicted [C03 C13]");
    __CPROVER_assert(G_g == key || (full && G_g == victim) || (KEPT(g0, g1) && (!g0.has || g1.ord == g0.ord)), "U mru insert path: every other key kept, ranks unchanged [C01 C03 C13]");
}

void h_do_insert(void)
{
    mru_cache *self = u_bind();
    uint64_t key, value;
    __CPROVER_assume(self->m_lock.m_lock.held);
    cstl_iter y = self->m_mru_end, b = PV(HEAD(self));
    cstl_iter nodes[] = {y, NX(y), PV(y), b, PV(b)};
    uint64_t  keys[] = {G_g, key};
    u_assume_wf(self, nodes, 5, keys, 2);
    __CPROVER_assume(!u_has(self, key)); /* requires: absent */
    bool     full = USED(self) >= CAP(self);
    uint64_t victim = self->P_H.kv[ENTRYOF_NODE(b)].first;
    KEY(victim);
    __CPROVER_assert(!full || u_rank(self, b) == CAP(self) - 1, "U mru do_insert: the eviction candidate has the highest rank (most recently used) [C13]");
    SNAP();
    mru_cache__do_insert(self, key, value);
    ASSERT_WF("mru do_insert");
    post_insert(self, key, value, g0, used0, cap0, full, victim, "");
    __CPROVER_assert(0, "vacuity sentinel");
}

void h_do_insert_update(void)
{
    mru_cache *self = u_bind();
    uint64_t key, value, a;
    __CPROVER_assume(self->m_lock.m_lock.held && a >= 1 && a <= 3);
    cstl_iter y = self->m_mru_end, b = PV(HEAD(self)), x = NODEOF_ENTRY(self->P_H.idx[key]);
    cstl_iter nodes[] = {y, NX(y), PV(y), b, PV(b), x, NX(x), PV(x)};
    uint64_t  keys[] = {G_g, key};
    u_assume_wf(self, nodes, 8, keys, 2);
    bool     full = USED(self) >= CAP(self);
    uint64_t victim = self->P_H.kv[ENTRYOF_NODE(b)].first;
    KEY(victim);
    SNAP();
    uvw  k0 = u_view(self, key);
    bool r = mru_cache__do_insert_update(self, key, value, a);
    uvw  g1 = u_view(self, G_g), k1 = u_view(self, key);
    ASSERT_WF("mru do_insert_update");
    __CPROVER_assert(r == (k0.has ? (a & 2) != 0 : (a & 1) != 0), "U mru do_insert_update: result obeys the allow mode [C09]");
    __CPROVER_assert(r || (KEPT(g0, g1) && KEPT(k0, k1) && (!g0.has || g1.ord == g0.ord) && (!k0.has || k1.ord == k0.ord) && USED(self) == used0), "U mru do_insert_update: a rejected call changes nothing [C09 C19]");
    if (r && k0.has)
    {
        __CPROVER_assert(k1.has && k1.val == value && k1.ord == used0 - 1 && USED(self) == used0, "U mru do_insert_update: update replaces the value and counts as a use [C01 C09 C13]");
        __CPROVER_assert(G_g == key || (KEPT(g0, g1) && (!g0.has || g1.ord == g0.ord - (g0.ord > k0.ord ? 1 : 0))), "U mru do_insert_update: update keeps other keys [C01 C03 C13]");
    }
    if (r && !k0.has) post_insert(self, key, value, g0, used0, cap0, full, victim, "");
    __CPROVER_assert(0, "vacuity sentinel");
}

/* ---- public single-key methods: lock; helper; unlock ------------------------------------------------------- */
void h_find(void)
{
    mru_cache *self = u_bind();
    uint64_t key; int peek;
    __CPROVER_assume(!self->m_lock.m_lock.held && self->m_lock.m_lock.acq < UINT64_MAX - 1 && (peek == cappuccino_peek_no || peek == cappuccino_peek_yes));
    cstl_iter x = NODEOF_ENTRY(self->P_H.idx[key]);
    cstl_iter nodes[] = {x, NX(x), PV(x)};
    uint64_t  keys[] = {G_g, key};
    u_assume_wf(self, nodes, 3, keys, 2);
    SNAP();
    uvw k0 = u_view(self, key);
    cstl_opt r = mru_cache__find(self, key, peek);
    uvw g1 = u_view(self, G_g), k1 = u_view(self, key);
    ASSERT_WF_PUB("mru find");
    __CPROVER_assert(r.has == k0.has && (!r.has || r.v == k0.val), "U mru find: a hit returns the stored value, a miss reports absent [C01]");
    __CPROVER_assert(KEPT(g0, g1) && KEPT(k0, k1) && USED(self) == used0, "U mru find: nothing added, removed or overwritten [C01 C03 C19]");
    __CPROVER_assert(!(k0.has && peek == cappuccino_peek_no) || (k1.ord == used0 - 1 && (G_g == key || !g0.has || g1.ord == g0.ord - (g0.ord > k0.ord ? 1 : 0))), "U mru find: a non-peek hit is a use [C13]");
    __CPROVER_assert((k0.has && peek == cappuccino_peek_no) || (!g0.has || g1.ord == g0.ord), "U mru find: peek and miss leave the order unchanged [C13 C19]");
    __CPROVER_assert(0, "vacuity sentinel");
}

void h_erase(void)
{
    mru_cache *self = u_bind();
    uint64_t key;
    __CPROVER_assume(!self->m_lock.m_lock.held && self->m_lock.m_lock.acq < UINT64_MAX - 1);
    cstl_iter x = NODEOF_ENTRY(self->P_H.idx[key]);
    cstl_iter nodes[] = {x, NX(x), PV(x), PV(PV(self->m_mru_end))};
    uint64_t  keys[] = {G_g, key};
    u_assume_wf(self, nodes, 4, keys, 2);
    SNAP();
    uvw  k0 = u_view(self, key);
    bool r = mru_cache__erase(self, key);
    uvw  g1 = u_view(self, G_g);
    ASSERT_WF_PUB("mru erase");
    __CPROVER_assert(r == k0.has && !u_has(self, key), "U mru erase: reports whether the key was present; the key is absent afterwards [C01 C03]");
    __CPROVER_assert(G_g == key || KEPT(g0, g1), "U mru erase: every other key kept with its value [C01 C03 C19]");
    __CPROVER_assert(G_g == key || !g0.has || g1.ord == (k0.has ? g0.ord - (g0.ord > k0.ord ? 1 : 0) : g0.ord), "U mru erase: recency ranks [C13 C19]");
    __CPROVER_assert(USED(self) + (r ? 1 : 0) == used0, "U mru erase: size [C02 C03 C19]");
    __CPROVER_assert(0, "vacuity sentinel");
}

void h_insert(void)
{
    mru_cache *self = u_bind();
    uint64_t key, value, a;
    __CPROVER_assume(!self->m_lock.m_lock.held && self->m_lock.m_lock.acq < UINT64_MAX - 1 && a >= 1 && a <= 3);
    cstl_iter y = self->m_mru_end, b = PV(HEAD(self)), x = NODEOF_ENTRY(self->P_H.idx[key]);
    cstl_iter nodes[] = {y, NX(y), PV(y), b, PV(b), x, NX(x), PV(x)};
    uint64_t  keys[] = {G_g, key};
    u_assume_wf(self, nodes, 8, keys, 2);
    bool     full = USED(self) >= CAP(self);
    uint64_t victim = self->P_H.kv[ENTRYOF_NODE(b)].first;
    KEY(victim);
    SNAP();
    uvw  k0 = u_view(self, key);
    bool r = mru_cache__insert(self, key, value, a);
    uvw  g1 = u_view(self, G_g), k1 = u_view(self, key);
    ASSERT_WF_PUB("mru insert");
    __CPROVER_assert(r == (k0.has ? (a & 2) != 0 : (a & 1) != 0), "U mru insert: result obeys the allow mode [C09]");
    __CPROVER_assert(r || (KEPT(g0, g1) && KEPT(k0, k1) && (!g0.has || g1.ord == g0.ord) && (!k0.has || k1.ord == k0.ord) && USED(self) == used0), "U mru insert: a rejected call changes nothing [C09 C19]");
    if (r && k0.has)
    {
        __CPROVER_assert(k1.has && k1.val == value && k1.ord == used0 - 1 && USED(self) == used0, "U mru insert: update replaces the value and counts as a use [C01 C09 C13]");
        __CPROVER_assert(G_g == key || (KEPT(g0, g1) && (!g0.has || g1.ord == g0.ord - (g0.ord > k0.ord ? 1 : 0))), "U mru insert: update keeps other keys [C01 C03 C13]");
    }
    if (r && !k0.has) post_insert(self, key, value, g0, used0, cap0, full, victim, "");
    __CPROVER_assert(0, "vacuity sentinel");
}
