/* contracts_u/rr_cache_u.h -- route U (unbounded capacity) specification of rr_cache: local wf clauses over
 * open-list positions i, index entries e and keys k; no list, no ranks. */
#ifndef RR_CACHE_U_H
#define RR_CACHE_U_H
#include "rr_cache.h"
#define UEND CSTL_U_END
typedef rr_cache C_;
#define HP(c) (&(c)->P_H)
#define CAP(c) ((c)->m_elements.size)
#define USED(c) ((c)->m_open_list_end)
#define OPEN(c, i) ((c)->m_open_list.data[(i)])

static inline bool u_inv0(const C_ *c)
{
    return CAP(c) >= 1 && USED(c) <= CAP(c) && c->m_open_list.size == CAP(c) && c->m_keyed_elements.size == USED(c) && c->m_keyed_elements.reserved >= CAP(c);
}
/* O(i): the open list holds slot numbers; used positions point at used slots that point back */
static inline bool u_inv_pos(const C_ *c, uint64_t i)
{
    if (!(i < CAP(c))) return true;
    uint64_t s = OPEN(c, i);
    if (!(s < CAP(c))) return false;
    if (i < USED(c))
    {
        const rr_cache__element *e = &c->m_elements.data[s];
        cstl_iter kp = e->m_keyed_position;
        if (!(e->m_open_list_position == i && kp != UEND && HP(c)->alive[kp] && HP(c)->kv[kp].second == s)) return false;
    }
    return true;
}
/* P(i,j): the open list is injective (a permutation of the slot numbers) */
static inline bool u_inv_pair(const C_ *c, uint64_t i, uint64_t j)
{
    if (!(i < CAP(c) && j < CAP(c)) || i == j) return true;
    return OPEN(c, i) != OPEN(c, j);
}
/* H(e): a live index entry points at a used slot that points back; idx is its inverse on keys */
static inline bool u_inv_entry(const C_ *c, cstl_iter e)
{
    if (e == UEND || !HP(c)->alive[e]) return true;
    uint64_t s = HP(c)->kv[e].second;
    if (!(s < CAP(c))) return false;
    const rr_cache__element *el = &c->m_elements.data[s];
    uint64_t p = el->m_open_list_position;
    return el->m_keyed_position == e && p < USED(c) && OPEN(c, p) == s && HP(c)->idx[HP(c)->kv[e].first] == e;
}
static inline bool u_inv_key(const C_ *c, uint64_t k)
{
    cstl_iter e = HP(c)->idx[k];
    return e == UEND || (HP(c)->alive[e] && HP(c)->kv[e].first == k);
}
static inline bool u_has(const C_ *c, uint64_t k) { return HP(c)->idx[k] != UEND; }
static inline uint64_t u_slot(const C_ *c, uint64_t k) { return HP(c)->kv[HP(c)->idx[k]].second; }
static inline uint64_t u_val(const C_ *c, uint64_t k) { return c->m_elements.data[u_slot(c, k)].m_value; }
#endif
