/* contracts_u/tlru_cache_u.h -- route U (unbounded capacity) specification of tlru_cache (lru_cache plus the
 * per-entry deadline and the multimap deadline -> slot).
 * wf is a set of universally quantified LOCAL clauses over nodes i, slots s, index entries e and keys k of
 * pools of unbounded size; ranks come from the ghost rank function of cstl_u/cstl_list.h.  A harness ASSUMES
 * the clauses at an explicit finite list of instances (sound: fewer instances than "for all"), runs the
 * extracted code, and ASSERTS every clause at arbitrary ghost instances (G_i, G_j, G_s, G_e, G_k) of the
 * post-state -- which is the clause for all instances. */
#ifndef TLRU_CACHE_U_H
#define TLRU_CACHE_U_H
#include "tlru_cache.h"

#define UEND CSTL_U_END
typedef tlru_cache C_;
#define LP(c) (&(c)->P_L0)
#define HP(c) (&(c)->P_H)
#define RP(c) (&(c)->P_R)
#define HEAD(c) ((c)->m_lru_list.head)
#define CAP(c) ((c)->m_elements.size)
#define USED(c) ((c)->m_used_size)

/* rank of node i NOW (replay of the splice log); the sentinel has rank CAP */
static inline uint64_t u_rank(const C_ *c, cstl_iter i) { return tlru_cache__L0_rank_now(LP(c), i); }
static inline bool u_owned(const C_ *c, cstl_iter i) { return LP(c)->owner[i] == HEAD(c); }
static inline bool u_node(const C_ *c, cstl_iter i) { return u_owned(c, i) && i != HEAD(c); } /* an element node of the list */

/* S: scalars */
static inline bool u_inv0(const C_ *c)
{
    cstl_iter h = HEAD(c);
    return CAP(c) >= 1 && USED(c) <= CAP(c) && c->m_lru_list.size == CAP(c) && c->m_keyed_elements.size == USED(c) && c->m_keyed_elements.reserved >= CAP(c) && c->m_ttl_list.size == USED(c)
           && LP(c)->alive[h] && LP(c)->sent[h] && LP(c)->owner[h] == h && u_rank(c, h) == CAP(c)
           && u_owned(c, c->m_lru_end) && u_rank(c, c->m_lru_end) == USED(c);
}
/* L(i): ring consistency, ranks, slot numbers, for a node owned by the list (sentinel included) */
static inline bool u_inv_node(const C_ *c, cstl_iter i)
{
    const tlru_cache__L0_pool *P = LP(c);
    if (!u_owned(c, i)) return true;
    cstl_iter nx = P->next[i], pv = P->prev[i];
    if (!(P->alive[i] && u_owned(c, nx) && u_owned(c, pv) && P->prev[nx] == i && P->next[pv] == i)) return false;
    if (i == HEAD(c)) return u_rank(c, nx) == 0 || (CAP(c) == 0);
    if (P->sent[i]) return false;
    if (!(u_rank(c, i) < CAP(c) && u_rank(c, nx) == u_rank(c, i) + 1 && P->val[i] < CAP(c))) return false;
    /* the slot's ghost inverse: nodeof[val[i]] == i is stated as U(s) below through m_lru_position for used slots;
     * for the permutation property we need val injective: clause P(i,j) */
    if (u_rank(c, i) < USED(c))
    {
        uint64_t s = P->val[i];
        const tlru_cache__element *e = &c->m_elements.data[s];
        cstl_iter kp = e->m_keyed_position;
        if (!(e->m_lru_position == i && kp != UEND && HP(c)->alive[kp] && HP(c)->kv[kp].second == s)) return false;
        cstl_iter tp = e->m_ttl_position;
        if (!(tp != UEND && RP(c)->alive[tp] && RP(c)->kv[tp].second == s && RP(c)->kv[tp].first == e->m_expire_time)) return false;
    }
    return true;
}
/* P(i,j): ranks and slot numbers are injective over element nodes */
static inline bool u_inv_pair(const C_ *c, cstl_iter i, cstl_iter j)
{
    if (!(u_node(c, i) && u_node(c, j)) || i == j) return true;
    return u_rank(c, i) != u_rank(c, j) && LP(c)->val[i] != LP(c)->val[j];
}
/* H(e): a live index entry points at a used slot that points back; idx is its inverse on keys */
static inline bool u_inv_entry(const C_ *c, cstl_iter e)
{
    if (e == UEND || !HP(c)->alive[e]) return true;
    uint64_t s = HP(c)->kv[e].second;
    if (!(s < CAP(c))) return false;
    const tlru_cache__element *el = &c->m_elements.data[s];
    cstl_iter n = el->m_lru_position;
    return el->m_keyed_position == e && u_node(c, n) && LP(c)->val[n] == s && u_rank(c, n) < USED(c) && HP(c)->idx[HP(c)->kv[e].first] == e;
}
/* T(f): a live deadline entry (deadline, slot) belongs to a used slot that points back and stores that deadline */
static inline bool u_inv_ttl(const C_ *c, cstl_iter f)
{
    if (f == UEND || !RP(c)->alive[f]) return true;
    uint64_t s = RP(c)->kv[f].second;
    if (!(s < CAP(c))) return false;
    const tlru_cache__element *el = &c->m_elements.data[s];
    cstl_iter n = el->m_lru_position;
    return el->m_ttl_position == f && RP(c)->kv[f].first == el->m_expire_time && u_node(c, n) && LP(c)->val[n] == s && u_rank(c, n) < USED(c);
}
/* K(k): idx maps a key to a live entry carrying that key, or to END */
static inline bool u_inv_key(const C_ *c, uint64_t k)
{
    cstl_iter e = HP(c)->idx[k];
    return e == UEND || (HP(c)->alive[e] && HP(c)->kv[e].first == k);
}
/* ---- view ---- */
static inline bool u_has(const C_ *c, uint64_t k) { return HP(c)->idx[k] != UEND; }
static inline uint64_t u_slot(const C_ *c, uint64_t k) { return HP(c)->kv[HP(c)->idx[k]].second; }
static inline uint64_t u_val(const C_ *c, uint64_t k) { return c->m_elements.data[u_slot(c, k)].m_value; }
static inline cstl_tp u_exp(const C_ *c, uint64_t k) { return c->m_elements.data[u_slot(c, k)].m_expire_time; }
static inline uint64_t u_ord(const C_ *c, uint64_t k) { return u_rank(c, c->m_elements.data[u_slot(c, k)].m_lru_position); }
#endif
