/* contracts_u/ut_map_u.c -- route U harnesses for ut_map's helper functions (dynamic ttl list: cstl_ud) */
#include "ut_map.c"
#include "ut_map_u.h"
uint64_t G_g, G_h; int64_t G_NOW; uint64_t G_RAND; cstl_ms G_MS; int64_t G_NS;
int64_t cstl_now(void) { return G_NOW; }
uint64_t cstl_rand_range(uint64_t a, uint64_t b) { __CPROVER_assume(a <= G_RAND && G_RAND <= b); return G_RAND; }
cstl_iter G_i, G_j, G_e; uint64_t G_k;
ut_map S;

#define NODE(i) __CPROVER_assume(u_inv_node(self, (i)))
#define ENTRY(e) __CPROVER_assume(u_inv_entry(self, (e)))
#define KEY(k) __CPROVER_assume(u_inv_key(self, (k)))
#define PAIR(i, j) __CPROVER_assume(u_inv_pair(self, (i), (j)) && u_inv_pair(self, (j), (i)))
#define NODEOF_ENTRY(e) (self->P_R.kv[(e)].second.m_ttl_position)
#define ENTRYOF_NODE(i) (self->P_L0.val[(i)].m_keyed_elements_position)
#define NX(i) (self->P_L0.next[(i)])
#define PV(i) (self->P_L0.prev[(i)])
/* "the new deadline is not before any stored one" (the callers' precondition), instantiated at node i */
#define DEADLINE_OK(i, e) __CPROVER_assume(!u_node(self, (i)) || self->P_L0.val[(i)].m_expire_time <= (e))

static ut_map *u_bind(void)
{
    ut_map *self = &S;
    ut_map__L0_pool_bind(&self->P_L0); ut_map__R_pool_bind(&self->P_R);
    return self;
}
static cstl_iter ALL[24]; static unsigned NALL;
static void u_assume_wf(ut_map *self, cstl_iter *nodes, unsigned n, uint64_t *keys, unsigned nk)
{
    __CPROVER_assume(u_inv0(self));
    __CPROVER_assume(USED(self) < UINT64_MAX); /* machine arithmetic: fewer than 2^64-1 stored entries (size()+1 does not wrap) */
    unsigned m = 0;
    for (unsigned a = 0; a < n; a++) ALL[m++] = nodes[a];
    cstl_iter h = HEAD(self);
    ALL[m++] = h; ALL[m++] = NX(h); ALL[m++] = PV(h); ALL[m++] = PV(PV(h)); ALL[m++] = G_i; ALL[m++] = G_j; ALL[m++] = NX(G_i); ALL[m++] = PV(G_i);
    ALL[m++] = NODEOF_ENTRY(G_e);
    for (unsigned a = 0; a < nk; a++) ALL[m++] = NODEOF_ENTRY(self->P_R.idx[keys[a]]);
    NALL = m;
    for (unsigned a = 0; a < m; a++)
    {
        NODE(ALL[a]);
        ENTRY(ENTRYOF_NODE(ALL[a]));
        for (unsigned b = a + 1; b < m; b++) PAIR(ALL[a], ALL[b]);
    }
    ENTRY(G_e); KEY(self->P_R.kv[G_e].first); KEY(G_k); ENTRY(self->P_R.idx[G_k]);
    for (unsigned a = 0; a < nk; a++) { KEY(keys[a]); ENTRY(self->P_R.idx[keys[a]]); }
}
static void u_assume_deadline(ut_map *self, cstl_tp e)
{
    for (unsigned a = 0; a < 24; a++)
        if (a < NALL) DEADLINE_OK(ALL[a], e);
}
#define ASSERT_WF(fn)                                                                                                         \
    __CPROVER_assert(u_inv0(self), "U " fn ": wf scalars (both containers have the same size, sentinel) [C01 C02 C03 C08]");   \
    __CPROVER_assert(u_inv_node(self, G_i), "U " fn ": wf ttl-node clause at an arbitrary node [C01 C02 C03 C08 C17]");         \
    __CPROVER_assert(u_inv_pair(self, G_i, G_j), "U " fn ": wf ranks injective and ttl list sorted by deadline at an arbitrary pair [C02 C04 C08 C17]"); \
    __CPROVER_assert(u_inv_entry(self, G_e), "U " fn ": wf map-entry clause at an arbitrary entry [C01 C02 C03 C08]");          \
    __CPROVER_assert(u_inv_key(self, G_k), "U " fn ": wf key clause at an arbitrary key [C01]");                                \
    __CPROVER_assert(self->m_uniform_ttl == ttl0 && self->m_lock.m_lock.held == held0 && self->m_lock.m_lock.acq == acq0, "U " fn ": frame (configured TTL, lock state) [C05 C06]")

typedef struct { bool has; uint64_t val; cstl_tp exp; } uvw;
static uvw u_view(const ut_map *c, uint64_t k)
{
    uvw r; r.has = u_has(c, k); r.val = r.has ? u_val(c, k) : 0; r.exp = r.has ? u_exp(c, k) : 0; return r;
}
#define SNAP() uvw g0 = u_view(self, G_g); uint64_t used0 = USED(self); cstl_ms ttl0 = self->m_uniform_ttl; bool held0 = self->m_lock.m_lock.held; uint64_t acq0 = self->m_lock.m_lock.acq
#define SAME(a, b) ((b).has == (a).has && (!(a).has || ((b).val == (a).val && (b).exp == (a).exp)))
/* purged view equality: b is the view after, a the view before the call */
#define PURGED_SAME(a, alive, b) ((b).has == (alive) && (!(b).has || ((b).val == (a).val && (b).exp == (a).exp)))

void h_do_find(void)
{
    ut_map *self = u_bind();
    uint64_t key;
    __CPROVER_assume(self->m_lock.m_lock.held);
    uint64_t keys[] = {G_g, key};
    u_assume_wf(self, 0, 0, keys, 2);
    SNAP();
    uvw k0 = u_view(self, key);
    cstl_opt r = ut_map__do_find(self, key);
    uvw g1 = u_view(self, G_g), k1 = u_view(self, key);
    ASSERT_WF("ut_map do_find");
    __CPROVER_assert(r.has == k0.has && (!r.has || r.v == k0.val), "U ut_map do_find: a hit returns the stored value, a miss reports absent [C01]");
    __CPROVER_assert(SAME(g0, g1) && SAME(k0, k1) && USED(self) == used0, "U ut_map do_find: nothing changes [C01 C03 C19]");
    __CPROVER_assert(0, "vacuity sentinel");
}

void h_do_erase(void)
{
    ut_map *self = u_bind();
    cstl_iter kp;
    __CPROVER_assume(self->m_lock.m_lock.held && kp != UEND && self->P_R.alive[kp]);
    cstl_iter x = NODEOF_ENTRY(kp);
    uint64_t  key = self->P_R.kv[kp].first;
    cstl_iter nodes[] = {x, NX(x), PV(x)};
    uint64_t  keys[] = {G_g, key};
    u_assume_wf(self, nodes, 3, keys, 2);
    ENTRY(kp);
    SNAP();
    ut_map__do_erase(self, kp);
    uvw g1 = u_view(self, G_g);
    ASSERT_WF("ut_map do_erase");
    __CPROVER_assert(!u_has(self, key), "U ut_map do_erase: erased key gone [C01]");
    __CPROVER_assert((G_g == key || SAME(g0, g1)) && USED(self) + 1 == used0, "U ut_map do_erase: every other key kept with value and deadline; size [C01 C02 C03 C05]");
    __CPROVER_assert(0, "vacuity sentinel");
}

void h_do_update(void)
{
    ut_map *self = u_bind();
    cstl_iter kp; uint64_t value; cstl_tp expire_time;
    __CPROVER_assume(self->m_lock.m_lock.held && kp != UEND && self->P_R.alive[kp]);
    cstl_iter x = NODEOF_ENTRY(kp);
    uint64_t  key = self->P_R.kv[kp].first;
    cstl_iter nodes[] = {x, NX(x), PV(x)};
    uint64_t  keys[] = {G_g, key};
    u_assume_wf(self, nodes, 3, keys, 2);
    ENTRY(kp);
    u_assume_deadline(self, expire_time); /* requires: the new deadline is not before any stored one */
    SNAP();
    ut_map__do_update(self, kp, value, expire_time);
    uvw g1 = u_view(self, G_g), k1 = u_view(self, key);
    ASSERT_WF("ut_map do_update");
    __CPROVER_assert(k1.has && k1.val == value && k1.exp == expire_time, "U ut_map do_update: value replaced, deadline restarted [C01 C04 C05 C09]");
    __CPROVER_assert((G_g == key || SAME(g0, g1)) && USED(self) == used0, "U ut_map do_update: other keys keep value and deadline [C01 C03 C05]");
    __CPROVER_assert(0, "vacuity sentinel");
}

void h_do_insert(void)
{
    ut_map *self = u_bind();
    uint64_t key, value; cstl_tp expire_time;
    __CPROVER_assume(self->m_lock.m_lock.held);
    uint64_t keys[] = {G_g, key};
    u_assume_wf(self, 0, 0, keys, 2);
    __CPROVER_assume(!u_has(self, key));
    u_assume_deadline(self, expire_time);
    SNAP();
    ut_map__do_insert(self, key, value, expire_time);
    uvw g1 = u_view(self, G_g), k1 = u_view(self, key);
    ASSERT_WF("ut_map do_insert");
    __CPROVER_assert(k1.has && k1.val == value && k1.exp == expire_time, "U ut_map do_insert: the new key is stored with value and deadline [C01 C03 C04 C05]");
    __CPROVER_assert((G_g == key || SAME(g0, g1)) && USED(self) == used0 + 1, "U ut_map do_insert: every other key kept; size + 1; no eviction [C01 C02 C03 C05]");
    __CPROVER_assert(0, "vacuity sentinel");
}

void h_do_insert_update(void)
{
    ut_map *self = u_bind();
    uint64_t key, value, a; cstl_tp expire_time;
    __CPROVER_assume(self->m_lock.m_lock.held && a >= 1 && a <= 3);
    cstl_iter x = NODEOF_ENTRY(self->P_R.idx[key]);
    cstl_iter nodes[] = {x, NX(x), PV(x)};
    uint64_t  keys[] = {G_g, key};
    u_assume_wf(self, nodes, 3, keys, 2);
    u_assume_deadline(self, expire_time);
    SNAP();
    uvw  k0 = u_view(self, key);
    bool r = ut_map__do_insert_update(self, key, value, expire_time, a);
    uvw  g1 = u_view(self, G_g), k1 = u_view(self, key);
    ASSERT_WF("ut_map do_insert_update");
    __CPROVER_assert(r == (k0.has ? (a & 2) != 0 : (a & 1) != 0), "U ut_map do_insert_update: result obeys the allow mode [C09]");
    __CPROVER_assert(r || (SAME(g0, g1) && SAME(k0, k1) && USED(self) == used0), "U ut_map do_insert_update: a rejected call changes nothing [C09 C19]");
    __CPROVER_assert(!r || (k1.has && k1.val == value && k1.exp == expire_time && (G_g == key || SAME(g0, g1)) && USED(self) == used0 + (k0.has ? 0 : 1)), "U ut_map do_insert_update: a successful write stores value and deadline, keeps the rest [C01 C03 C04 C05 C09]");
    __CPROVER_assert(0, "vacuity sentinel");
}

/* do_prune, the purge loop: for EVERY number of stored entries, BOUNDED in the number of entries that are expired at the
 * call (at most PRUNE_K; the loop and the list's erase(range) are unwound).  A bounded stand-in, labelled so. */
#define PRUNE_K 2
void h_do_prune(void)
{
    ut_map *self = u_bind();
    cstl_tp now;
    __CPROVER_assume(self->m_lock.m_lock.held);
    cstl_iter n1 = NX(HEAD(self)), n2 = NX(n1), n3 = NX(n2);
    cstl_iter nodes[] = {n1, n2, n3, NX(n3)};
    uint64_t  keys[] = {G_g};
    u_assume_wf(self, nodes, 4, keys, 1);
    /* the bound: the node at rank PRUNE_K, if there is one, has not expired (the list is sorted: nor has any behind it) */
    __CPROVER_assume(!u_node(self, n1) || !u_node(self, n2) || !u_node(self, n3) || self->P_L0.val[n3].m_expire_time > now);
    SNAP();
    bool g_live = g0.has && g0.exp > now;
    uint64_t r = ut_map__do_prune(self, now);
    uvw g1 = u_view(self, G_g);
    ASSERT_WF("ut_map do_prune");
    __CPROVER_assert(PURGED_SAME(g0, g_live, g1), "U ut_map do_prune: all and only the entries with deadline <= now leave; survivors keep value and deadline [C03 C04 C05 C17]");
    __CPROVER_assert(USED(self) + r == used0 && r <= PRUNE_K, "U ut_map do_prune: reports the number removed [C02 C17]");
    __CPROVER_assert(!u_node(self, G_i) || self->P_L0.val[G_i].m_expire_time > now, "U ut_map do_prune: no expired entry remains [C02 C04 C17]");
    __CPROVER_assert(r != PRUNE_K, "vacuity sentinel: a purge of PRUNE_K entries is reachable");
    __CPROVER_assert(0, "vacuity sentinel");
}

/* ================= public single-key methods: lock; now; do_prune; helper; unlock =================
 * The purge loop do_prune is not within route U (its loop erases map entries and then a list range: the state inside
 * the loop is not wf).  The calls of do_prune are REPLACED BY ITS CONTRACT (goto-instrument --replace-calls
 * ut_map__do_prune:ut_map__do_prune_contract): the contract is the one route B enforces on do_prune at bounded sizes
 * (contracts/ut_map.spec: wf, frame, "all and only the entries with deadline <= now leave", count), here an ASSUMED
 * contract of a function of the repository -- listed as such in the evidence.  The post-state of the contract lives
 * in a second set of unbounded arrays (B_*): the stub re-binds the pool pointers to them (their initial content is
 * arbitrary = havoc) and assumes the contract's postcondition at the instance list. */
static ut_map__R_node       B_kv[__CPROVER_constant_infinity_uint];
static bool                 B_ralive[__CPROVER_constant_infinity_uint];
static cstl_iter            B_idx[__CPROVER_constant_infinity_uint];
static cstl_iter            B_next[__CPROVER_constant_infinity_uint], B_prev[__CPROVER_constant_infinity_uint], B_owner[__CPROVER_constant_infinity_uint];
static ut_map__ttl_element  B_val[__CPROVER_constant_infinity_uint];
static bool                 B_alive[__CPROVER_constant_infinity_uint], B_sent[__CPROVER_constant_infinity_uint];
static uint64_t             B_pos0[__CPROVER_constant_infinity_uint];
ut_map   SA;       /* ghost: the state before the purge (scalars and the pointers to the A arrays) */
uint64_t G_key;    /* ghost: the key the public method operates on */
bool     PRUNED;   /* ghost: the contract was used exactly once */

#define P_HAS(c, k, now) (u_has((c), (k)) && u_exp((c), (k)) > (now))
/* the contract's "all and only" clause at key k: the view after is the purged view before */
#define PRUNE_REL(k, now) __CPROVER_assume(u_has(self, (k)) == P_HAS(&SA, (k), (now)) && (!u_has(self, (k)) || (u_val(self, (k)) == u_val(&SA, (k)) && u_exp(self, (k)) == u_exp(&SA, (k)))))

uint64_t ut_map__do_prune_contract(ut_map *self, cstl_tp now)
{
    __CPROVER_assert(self->m_lock.m_lock.held, "U ut_map purge contract: the caller holds the lock [C06 C07]");
    __CPROVER_assert(!PRUNED, "model bound: one purge per call");
    PRUNED = true;
    SA = *self;
    /* havoc: everything the function may assign (assigns: the whole object = both containers and their nodes) */
    self->P_L0.next = B_next; self->P_L0.prev = B_prev; self->P_L0.owner = B_owner; self->P_L0.val = B_val;
    self->P_L0.alive = B_alive; self->P_L0.sent = B_sent; self->P_L0.pos0 = B_pos0; self->P_L0.nlog = 0;
    self->P_R.kv = B_kv; self->P_R.alive = B_ralive; self->P_R.idx = B_idx;
    self->m_ttl_list.head = nondet_u64(); self->m_ttl_list.size = nondet_u64(); self->m_keyed_elements.size = nondet_u64();
    /* ensures wf, at the instances */
    cstl_iter x = NODEOF_ENTRY(self->P_R.idx[G_key]);
    cstl_iter nodes[] = {x, NX(x), PV(x)};
    uint64_t  keys[] = {G_g, G_key};
    u_assume_wf(self, nodes, 3, keys, 2);
    /* ensures all_and_only, at the ghost key, the operated key and the keys of the instance nodes */
    PRUNE_REL(G_g, now); PRUNE_REL(G_key, now); PRUNE_REL(G_k, now);
    for (unsigned a = 0; a < 24; a++)
        if (a < NALL && u_node(self, ALL[a]))
        {
            uint64_t k = self->P_R.kv[ENTRYOF_NODE(ALL[a])].first;
            PRUNE_REL(k, now);
            /* the caller's precondition time_ok ("no stored deadline is after now + ttl"), instantiated at the node that
             * held k before the purge, and wf of the pre-state at that key */
            __CPROVER_assume(u_inv_key(&SA, k) && u_inv_entry(&SA, SA.P_R.idx[k]) && u_inv_node(&SA, SA.P_R.kv[SA.P_R.idx[k]].second.m_ttl_position));
            __CPROVER_assume(!u_has(&SA, k) || u_exp(&SA, k) <= now + cstl_ms_to_ns(G_MS));
        }
    /* ensures count */
    __CPROVER_assume(USED(self) <= USED(&SA));
    /* ensures frame */
    __CPROVER_assert(self->m_uniform_ttl == SA.m_uniform_ttl && self->m_lock.m_lock.held, "spec sanity: the stub keeps the frame");
    return USED(&SA) - USED(self);
}

/* preconditions on time of the public operations, as contracts/ut_base.h time_ok: the uniform TTL is the one duration
 * converted (G_MS), 0 <= ttl, now + ttl representable; steady_clock is monotone and the TTL constant, so no stored
 * deadline is after now + ttl (instantiated in the stub at the nodes that matter) */
#define TIME_OK() __CPROVER_assume(self->m_uniform_ttl == G_MS && G_MS >= 0 && G_MS <= INT64_MAX / 1000000 && G_NOW >= 0 && G_NOW <= INT64_MAX - cstl_ms_to_ns(G_MS))
#define PUB_PRE(k)                                                     \
    ut_map *self = u_bind();                                           \
    PRUNED = false; G_key = (k);                                       \
    __CPROVER_assume(!self->m_lock.m_lock.held);                       \
    {                                                                  \
        cstl_iter x0 = NODEOF_ENTRY(self->P_R.idx[(k)]);               \
        cstl_iter nodes0[] = {x0, NX(x0), PV(x0)};                     \
        uint64_t  keys0[] = {G_g, (k)};                                \
        u_assume_wf(self, nodes0, 3, keys0, 2);                        \
    }                                                                  \
    TIME_OK();                                                         \
    cstl_ms ttl0 = self->m_uniform_ttl; uint64_t acq0 = self->m_lock.m_lock.acq; bool held0 = false; \
    uint64_t usedA = USED(self);                                       \
    uvw gA = u_view(self, G_g), kA = u_view(self, (k));                \
    bool g_live = gA.has && gA.exp > G_NOW, k_live = kA.has && kA.exp > G_NOW
#define PUB_POST(fn)                                                                                                    \
    __CPROVER_assert(PRUNED, "spec sanity: the purge contract was used");                                               \
    __CPROVER_assert(u_inv0(self), "U " fn ": wf scalars (both containers have the same size, sentinel) [C01 C02 C03 C08]");   \
    __CPROVER_assert(u_inv_node(self, G_i), "U " fn ": wf ttl-node clause at an arbitrary node [C01 C02 C03 C08 C17]");         \
    __CPROVER_assert(u_inv_pair(self, G_i, G_j), "U " fn ": wf ranks injective and ttl list sorted by deadline at an arbitrary pair [C02 C04 C08 C17]"); \
    __CPROVER_assert(u_inv_entry(self, G_e), "U " fn ": wf map-entry clause at an arbitrary entry [C01 C02 C03 C08]");          \
    __CPROVER_assert(u_inv_key(self, G_k), "U " fn ": wf key clause at an arbitrary key [C01]");                                \
    __CPROVER_assert(self->m_uniform_ttl == ttl0 && !self->m_lock.m_lock.held && self->m_lock.m_lock.acq == acq0 + 1, "U " fn ": frame (configured TTL; the lock was taken once and released) [C05 C06 C07]")

void h_insert(void)
{
    uint64_t key, value, a;
    PUB_PRE(key);
    __CPROVER_assume(a >= 1 && a <= 3);
    bool r = ut_map__insert(self, key, value, a);
    uvw  g1 = u_view(self, G_g), k1 = u_view(self, key);
    PUB_POST("ut_map insert");
    __CPROVER_assert(r == (k_live ? (a & 2) != 0 : (a & 1) != 0), "U ut_map insert: result obeys the allow mode; an expired entry counts as absent [C04 C09]");
    __CPROVER_assert(r || (PURGED_SAME(gA, g_live, g1) && PURGED_SAME(kA, k_live, k1)), "U ut_map insert: a rejected call only purges [C03 C04 C09 C17 C19]");
    __CPROVER_assert(!r || (k1.has && k1.val == value && k1.exp == G_NOW + cstl_ms_to_ns(G_MS) && (G_g == key || PURGED_SAME(gA, g_live, g1))), "U ut_map insert: a successful write stores the value with deadline now + ttl; every other live key kept [C01 C03 C04 C05 C09 C17]");
    __CPROVER_assert(USED(self) <= usedA + 1, "U ut_map insert: at most one entry more [C02]");
    __CPROVER_assert(!(G_MS > 0) || !g1.has || g1.exp > G_NOW, "U ut_map insert: with a positive TTL every stored entry is live afterwards [C02 C04]");
    __CPROVER_assert(0, "vacuity sentinel");
}

void h_erase(void)
{
    uint64_t key;
    PUB_PRE(key);
    bool r = ut_map__erase(self, key);
    uvw  g1 = u_view(self, G_g), k1 = u_view(self, key);
    PUB_POST("ut_map erase");
    __CPROVER_assert(r == k_live, "U ut_map erase: reports whether a live entry was removed [C01 C03 C04]");
    __CPROVER_assert(!k1.has && (G_g == key || PURGED_SAME(gA, g_live, g1)), "U ut_map erase: the key is gone, every other live key kept [C01 C03 C17 C19]");
    __CPROVER_assert(USED(self) <= usedA, "U ut_map erase: no entry more [C02]");
    __CPROVER_assert(!g1.has || g1.exp > G_NOW, "U ut_map erase: every stored entry is live afterwards [C02 C04]");
    __CPROVER_assert(0, "vacuity sentinel");
}

void h_find(void)
{
    uint64_t key;
    PUB_PRE(key);
    cstl_opt r = ut_map__find(self, key);
    uvw  g1 = u_view(self, G_g), k1 = u_view(self, key);
    PUB_POST("ut_map find");
    __CPROVER_assert(r.has == k_live && (!r.has || r.v == kA.val), "U ut_map find: a live entry is served with its value, an expired or absent one is not [C01 C04 C05]");
    __CPROVER_assert(PURGED_SAME(gA, g_live, g1) && PURGED_SAME(kA, k_live, k1), "U ut_map find: only purges [C03 C05 C17 C19]");
    __CPROVER_assert(USED(self) <= usedA, "U ut_map find: no entry more [C02]");
    __CPROVER_assert(!g1.has || g1.exp > G_NOW, "U ut_map find: every stored entry is live afterwards [C02 C04]");
    __CPROVER_assert(0, "vacuity sentinel");
}

void h_clean_expired_values(void)
{
    uint64_t key;
    PUB_PRE(key);
    uint64_t r = ut_map__clean_expired_values(self);
    uvw  g1 = u_view(self, G_g);
    PUB_POST("ut_map clean_expired_values");
    __CPROVER_assert(PURGED_SAME(gA, g_live, g1), "U ut_map clean_expired_values: all and only the expired entries leave [C03 C05 C17]");
    __CPROVER_assert(USED(self) + r == usedA, "U ut_map clean_expired_values: reports the number removed [C02 C17]");
    __CPROVER_assert(0, "vacuity sentinel");
}
