/* contracts_u/ut_map_u.h -- route U (unbounded number of entries) specification of ut_map's helper functions.
 * The public methods start with the purge loop do_prune and stay in route B. */
#ifndef UT_MAP_U_H
#define UT_MAP_U_H
#include "ut_map.h"
#define UEND CSTL_U_END
typedef ut_map C_;
#define LP(c) (&(c)->P_L0)
#define RP(c) (&(c)->P_R)
#define HEAD(c) ((c)->m_ttl_list.head)
#define USED(c) ((c)->m_keyed_elements.size)

static inline uint64_t u_rank(const C_ *c, cstl_iter i) { return ut_map__L0_rank_now(LP(c), i); }
static inline bool u_owned(const C_ *c, cstl_iter i) { return LP(c)->owner[i] == HEAD(c); }
static inline bool u_node(const C_ *c, cstl_iter i) { return u_owned(c, i) && i != HEAD(c); }

static inline bool u_inv0(const C_ *c)
{
    cstl_iter h = HEAD(c);
    return h != CSTL_NIL && c->m_ttl_list.size == USED(c) && LP(c)->alive[h] && LP(c)->sent[h] && LP(c)->owner[h] == h && u_rank(c, h) == USED(c);
}
static inline bool u_inv_node(const C_ *c, cstl_iter i)
{
    const ut_map__L0_pool *P = LP(c);
    if (!u_owned(c, i)) return true;
    cstl_iter nx = P->next[i], pv = P->prev[i];
    if (!(P->alive[i] && u_owned(c, nx) && u_owned(c, pv) && P->prev[nx] == i && P->next[pv] == i)) return false;
    if (i == HEAD(c)) return nx == i ? USED(c) == 0 : u_rank(c, nx) == 0; /* an empty ring iff no entries */
    if (P->sent[i]) return false;
    if (!(u_rank(c, i) < USED(c) && u_rank(c, nx) == u_rank(c, i) + 1)) return false;
    cstl_iter kp = P->val[i].m_keyed_elements_position;
    return kp != UEND && RP(c)->alive[kp] && RP(c)->kv[kp].second.m_ttl_position == i;
}
/* P(i,j): ranks injective and the list is sorted by deadline */
static inline bool u_inv_pair(const C_ *c, cstl_iter i, cstl_iter j)
{
    if (!(u_node(c, i) && u_node(c, j)) || i == j) return true;
    if (u_rank(c, i) == u_rank(c, j)) return false;
    return !(u_rank(c, i) < u_rank(c, j)) || LP(c)->val[i].m_expire_time <= LP(c)->val[j].m_expire_time;
}
static inline bool u_inv_entry(const C_ *c, cstl_iter e)
{
    if (e == UEND || !RP(c)->alive[e]) return true;
    cstl_iter tp = RP(c)->kv[e].second.m_ttl_position;
    return u_node(c, tp) && LP(c)->val[tp].m_keyed_elements_position == e && RP(c)->idx[RP(c)->kv[e].first] == e;
}
static inline bool u_inv_key(const C_ *c, uint64_t k)
{
    cstl_iter e = RP(c)->idx[k];
    return e == UEND || (RP(c)->alive[e] && RP(c)->kv[e].first == k);
}
static inline bool u_has(const C_ *c, uint64_t k) { return RP(c)->idx[k] != UEND; }
static inline uint64_t u_val(const C_ *c, uint64_t k) { return RP(c)->kv[RP(c)->idx[k]].second.m_value; }
static inline cstl_tp u_exp(const C_ *c, uint64_t k) { return LP(c)->val[RP(c)->kv[RP(c)->idx[k]].second.m_ttl_position].m_expire_time; }
#endif
