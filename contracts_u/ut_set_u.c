/* contracts_u/ut_set_u.c -- route U harnesses for ut_set's helper functions (dynamic ttl list: cstl_ud) */
#include "ut_set.c"
#include "ut_set_u.h"
uint64_t G_g, G_h; int64_t G_NOW; uint64_t G_RAND; cstl_ms G_MS; int64_t G_NS;
int64_t cstl_now(void) { return G_NOW; }
uint64_t cstl_rand_range(uint64_t a, uint64_t b) { __CPROVER_assume(a <= G_RAND && G_RAND <= b); return G_RAND; }
cstl_iter G_i, G_j, G_e; uint64_t G_k;
ut_set S;

#define NODE(i) __CPROVER_assume(u_inv_node(self, (i)))
#define ENTRY(e) __CPROVER_assume(u_inv_entry(self, (e)))
#define KEY(k) __CPROVER_assume(u_inv_key(self, (k)))
#define PAIR(i, j) __CPROVER_assume(u_inv_pair(self, (i), (j)) && u_inv_pair(self, (j), (i)))
#define NODEOF_ENTRY(e) (self->P_R.kv[(e)].second.m_ttl_position)
#define ENTRYOF_NODE(i) (self->P_L0.val[(i)].m_keyed_elements_position)
#define NX(i) (self->P_L0.next[(i)])
#define PV(i) (self->P_L0.prev[(i)])
/* "the new deadline is not before any stored one" (the callers' precondition), instantiated at node i */
#define DEADLINE_OK(i, e) __CPROVER_assume(!u_node(self, (i)) || self->P_L0.val[(i)].m_expire_time <= (e))

static ut_set *u_bind(void)
{
    ut_set *self = &S;
    ut_set__L0_pool_bind(&self->P_L0); ut_set__R_pool_bind(&self->P_R);
    return self;
}
static cstl_iter ALL[24]; static unsigned NALL;
static void u_assume_wf(ut_set *self, cstl_iter *nodes, unsigned n, uint64_t *keys, unsigned nk)
{
    __CPROVER_assume(u_inv0(self));
    __CPROVER_assume(USED(self) < UINT64_MAX); /* machine arithmetic: fewer than 2^64-1 stored entries (size()+1 does not wrap) */
    unsigned m = 0;
    for (unsigned a = 0; a < n; a++) ALL[m++] = nodes[a];
    cstl_iter h = HEAD(self);
    ALL[m++] = h; ALL[m++] = NX(h); ALL[m++] = PV(h); ALL[m++] = PV(PV(h)); ALL[m++] = G_i; ALL[m++] = G_j; ALL[m++] = NX(G_i); ALL[m++] = PV(G_i);
    ALL[m++] = NODEOF_ENTRY(G_e);
    for (unsigned a = 0; a < nk; a++) ALL[m++] = NODEOF_ENTRY(self->P_R.idx[keys[a]]);
    NALL = m;
    for (unsigned a = 0; a < m; a++)
    {
        NODE(ALL[a]);
        ENTRY(ENTRYOF_NODE(ALL[a]));
        for (unsigned b = a + 1; b < m; b++) PAIR(ALL[a], ALL[b]);
    }
    ENTRY(G_e); KEY(self->P_R.kv[G_e].first); KEY(G_k); ENTRY(self->P_R.idx[G_k]);
    for (unsigned a = 0; a < nk; a++) { KEY(keys[a]); ENTRY(self->P_R.idx[keys[a]]); }
}
static void u_assume_deadline(ut_set *self, cstl_tp e)
{
    for (unsigned a = 0; a < 24; a++)
        if (a < NALL) DEADLINE_OK(ALL[a], e);
}
#define ASSERT_WF(fn)                                                                                                         \
    __CPROVER_assert(u_inv0(self), "U " fn ": wf scalars (both containers have the same size, sentinel) [C01 C02 C03 C08]");   \
    __CPROVER_assert(u_inv_node(self, G_i), "U " fn ": wf ttl-node clause at an arbitrary node [C01 C02 C03 C08 C17]");         \
    __CPROVER_assert(u_inv_pair(self, G_i, G_j), "U " fn ": wf ranks injective and ttl list sorted by deadline at an arbitrary pair [C04 C08 C17]"); \
    __CPROVER_assert(u_inv_entry(self, G_e), "U " fn ": wf map-entry clause at an arbitrary entry [C01 C02 C03 C08]");          \
    __CPROVER_assert(u_inv_key(self, G_k), "U " fn ": wf key clause at an arbitrary key [C01]");                                \
    __CPROVER_assert(self->m_uniform_ttl == ttl0 && self->m_lock.m_lock.held == held0 && self->m_lock.m_lock.acq == acq0, "U " fn ": frame (configured TTL, lock state) [C05 C06]")

typedef struct { bool has; cstl_tp exp; } uvw;
static uvw u_view(const ut_set *c, uint64_t k)
{
    uvw r; r.has = u_has(c, k); r.exp = r.has ? u_exp(c, k) : 0; return r;
}
#define SNAP() uvw g0 = u_view(self, G_g); uint64_t used0 = USED(self); cstl_ms ttl0 = self->m_uniform_ttl; bool held0 = self->m_lock.m_lock.held; uint64_t acq0 = self->m_lock.m_lock.acq
#define SAME(a, b) ((b).has == (a).has && (!(a).has || (b).exp == (a).exp))

void h_do_find(void)
{
    ut_set *self = u_bind();
    uint64_t key;
    __CPROVER_assume(self->m_lock.m_lock.held);
    uint64_t keys[] = {G_g, key};
    u_assume_wf(self, 0, 0, keys, 2);
    SNAP();
    uvw k0 = u_view(self, key);
    bool r = ut_set__do_find(self, key);
    uvw g1 = u_view(self, G_g), k1 = u_view(self, key);
    ASSERT_WF("ut_set do_find");
    __CPROVER_assert(r == k0.has, "U ut_set do_find: membership is reported truthfully [C01]");
    __CPROVER_assert(SAME(g0, g1) && SAME(k0, k1) && USED(self) == used0, "U ut_set do_find: nothing changes [C01 C03 C19]");
    __CPROVER_assert(0, "vacuity sentinel");
}

void h_do_erase(void)
{
    ut_set *self = u_bind();
    cstl_iter kp;
    __CPROVER_assume(self->m_lock.m_lock.held && kp != UEND && self->P_R.alive[kp]);
    cstl_iter x = NODEOF_ENTRY(kp);
    uint64_t  key = self->P_R.kv[kp].first;
    cstl_iter nodes[] = {x, NX(x), PV(x)};
    uint64_t  keys[] = {G_g, key};
    u_assume_wf(self, nodes, 3, keys, 2);
    ENTRY(kp);
    SNAP();
    ut_set__do_erase(self, kp);
    uvw g1 = u_view(self, G_g);
    ASSERT_WF("ut_set do_erase");
    __CPROVER_assert(!u_has(self, key), "U ut_set do_erase: erased key gone [C01]");
    __CPROVER_assert((G_g == key || SAME(g0, g1)) && USED(self) + 1 == used0, "U ut_set do_erase: every other key kept with its deadline; size [C01 C02 C03 C05]");
    __CPROVER_assert(0, "vacuity sentinel");
}

void h_do_update(void)
{
    ut_set *self = u_bind();
    cstl_iter kp; cstl_tp expire_time;
    __CPROVER_assume(self->m_lock.m_lock.held && kp != UEND && self->P_R.alive[kp]);
    cstl_iter x = NODEOF_ENTRY(kp);
    uint64_t  key = self->P_R.kv[kp].first;
    cstl_iter nodes[] = {x, NX(x), PV(x)};
    uint64_t  keys[] = {G_g, key};
    u_assume_wf(self, nodes, 3, keys, 2);
    ENTRY(kp);
    u_assume_deadline(self, expire_time); /* requires: the new deadline is not before any stored one */
    SNAP();
    ut_set__do_update(self, kp, expire_time);
    uvw g1 = u_view(self, G_g), k1 = u_view(self, key);
    ASSERT_WF("ut_set do_update");
    __CPROVER_assert(k1.has && k1.exp == expire_time, "U ut_set do_update: deadline restarted [C01 C04 C05 C09]");
    __CPROVER_assert((G_g == key || SAME(g0, g1)) && USED(self) == used0, "U ut_set do_update: other keys keep their deadline [C01 C03 C05]");
    __CPROVER_assert(0, "vacuity sentinel");
}

void h_do_insert(void)
{
    ut_set *self = u_bind();
    uint64_t key; cstl_tp expire_time;
    __CPROVER_assume(self->m_lock.m_lock.held);
    uint64_t keys[] = {G_g, key};
    u_assume_wf(self, 0, 0, keys, 2);
    __CPROVER_assume(!u_has(self, key));
    u_assume_deadline(self, expire_time);
    SNAP();
    ut_set__do_insert(self, key, expire_time);
    uvw g1 = u_view(self, G_g), k1 = u_view(self, key);
    ASSERT_WF("ut_set do_insert");
    __CPROVER_assert(k1.has && k1.exp == expire_time, "U ut_set do_insert: the new key is stored with its deadline [C01 C03 C04 C05]");
    __CPROVER_assert((G_g == key || SAME(g0, g1)) && USED(self) == used0 + 1, "U ut_set do_insert: every other key kept; size + 1; no eviction [C01 C02 C03 C05]");
    __CPROVER_assert(0, "vacuity sentinel");
}

void h_do_insert_update(void)
{
    ut_set *self = u_bind();
    uint64_t key, a; cstl_tp expire_time;
    __CPROVER_assume(self->m_lock.m_lock.held && a >= 1 && a <= 3);
    cstl_iter x = NODEOF_ENTRY(self->P_R.idx[key]);
    cstl_iter nodes[] = {x, NX(x), PV(x)};
    uint64_t  keys[] = {G_g, key};
    u_assume_wf(self, nodes, 3, keys, 2);
    u_assume_deadline(self, expire_time);
    SNAP();
    uvw  k0 = u_view(self, key);
    bool r = ut_set__do_insert_update(self, key, expire_time, a);
    uvw  g1 = u_view(self, G_g), k1 = u_view(self, key);
    ASSERT_WF("ut_set do_insert_update");
    __CPROVER_assert(r == (k0.has ? (a & 2) != 0 : (a & 1) != 0), "U ut_set do_insert_update: result obeys the allow mode [C09]");
    __CPROVER_assert(r || (SAME(g0, g1) && SAME(k0, k1) && USED(self) == used0), "U ut_set do_insert_update: a rejected call changes nothing [C09 C19]");
    __CPROVER_assert(!r || (k1.has && k1.exp == expire_time && (G_g == key || SAME(g0, g1)) && USED(self) == used0 + (k0.has ? 0 : 1)), "U ut_set do_insert_update: a successful write stores the key with its deadline, keeps the rest [C01 C03 C04 C05 C09]");
    __CPROVER_assert(0, "vacuity sentinel");
}
