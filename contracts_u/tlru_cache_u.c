/* contracts_u/tlru_cache_u.c -- route U harnesses for tlru_cache (see lru_cache_u.c for the pattern).
 * clean_expired_values (a loop) and the constructor stay in route B. */
#include "tlru_cache.c"
#include "tlru_cache_u.h"
uint64_t G_g, G_h; int64_t G_NOW; uint64_t G_RAND; cstl_ms G_MS; int64_t G_NS;
int64_t cstl_now(void) { return G_NOW; }
uint64_t cstl_rand_range(uint64_t a, uint64_t b) { __CPROVER_assume(a <= G_RAND && G_RAND <= b); return G_RAND; }
cstl_iter G_i, G_j, G_e, G_f; uint64_t G_k;
tlru_cache S;

#define NODE(i) __CPROVER_assume(u_inv_node(self, (i)))
#define ENTRY(e) __CPROVER_assume(u_inv_entry(self, (e)))
#define TTL(f) __CPROVER_assume(u_inv_ttl(self, (f)))
#define KEY(k) __CPROVER_assume(u_inv_key(self, (k)))
#define PAIR(i, j) __CPROVER_assume(u_inv_pair(self, (i), (j)) && u_inv_pair(self, (j), (i)))
#define NODEOF_ENTRY(e) (self->m_elements.data[self->P_H.kv[(e)].second].m_lru_position)
#define NODEOF_TTL(f) (self->m_elements.data[self->P_R.kv[(f)].second].m_lru_position)
#define ENTRYOF_NODE(i) (self->m_elements.data[self->P_L0.val[(i)]].m_keyed_position)
#define TTLOF_NODE(i) (self->m_elements.data[self->P_L0.val[(i)]].m_ttl_position)
#define NX(i) (self->P_L0.next[(i)])
#define PV(i) (self->P_L0.prev[(i)])

static tlru_cache *u_bind(void)
{
    tlru_cache *self = &S;
    tlru_cache__L0_pool_bind(&self->P_L0); tlru_cache__H_pool_bind(&self->P_H); tlru_cache__R_pool_bind(&self->P_R); tlru_cache__V0_bind(&self->m_elements);
    G_MMN = 0;
    return self;
}
static void u_assume_wf(tlru_cache *self, cstl_iter *nodes, unsigned n, uint64_t *keys, unsigned nk)
{
    __CPROVER_assume(u_inv0(self));
    cstl_iter all[28]; unsigned m = 0;
    for (unsigned a = 0; a < n; a++) all[m++] = nodes[a];
    cstl_iter h = HEAD(self), end = self->m_lru_end;
    all[m++] = h; all[m++] = NX(h); all[m++] = PV(h); all[m++] = end; all[m++] = PV(end); all[m++] = G_i; all[m++] = G_j; all[m++] = NX(G_i); all[m++] = PV(G_i);
    all[m++] = NODEOF_ENTRY(G_e); all[m++] = NODEOF_TTL(G_f);
    for (unsigned a = 0; a < nk; a++) all[m++] = NODEOF_ENTRY(self->P_H.idx[keys[a]]);
    for (unsigned a = 0; a < m; a++)
    {
        NODE(all[a]);
        ENTRY(ENTRYOF_NODE(all[a]));
        TTL(TTLOF_NODE(all[a]));
        for (unsigned b = a + 1; b < m; b++) PAIR(all[a], all[b]);
    }
    ENTRY(G_e); TTL(G_f); KEY(self->P_H.kv[G_e].first); KEY(G_k); ENTRY(self->P_H.idx[G_k]);
    for (unsigned a = 0; a < nk; a++) { KEY(keys[a]); ENTRY(self->P_H.idx[keys[a]]); }
}
#define ASSERT_WF_(fn, lockcond, locktxt)                                                                                     \
    __CPROVER_assert(u_inv0(self), "U " fn ": wf scalars (counters, partition iterator, reserve) [C01 C02 C03 C08]");           \
    __CPROVER_assert(u_inv_node(self, G_i), "U " fn ": wf node clause at an arbitrary node [C01 C02 C03 C08 C10]");             \
    __CPROVER_assert(u_inv_pair(self, G_i, G_j), "U " fn ": wf rank/slot injectivity at an arbitrary pair [C01 C08 C10]");      \
    __CPROVER_assert(u_inv_entry(self, G_e), "U " fn ": wf index-entry clause at an arbitrary entry [C01 C02 C03 C08]");        \
    __CPROVER_assert(u_inv_ttl(self, G_f), "U " fn ": wf deadline-entry clause at an arbitrary entry [C04 C05 C08 C16 C17]");   \
    __CPROVER_assert(u_inv_key(self, G_k), "U " fn ": wf key clause at an arbitrary key [C01]");                                \
    __CPROVER_assert(CAP(self) == cap0 && (lockcond), "U " fn ": " locktxt)
#define ASSERT_WF(fn) ASSERT_WF_(fn, self->m_lock.m_lock.held == held0 && self->m_lock.m_lock.acq == acq0, "frame (capacity, lock state) [C02 C06]")
#define ASSERT_WF_PUB(fn) ASSERT_WF_(fn, !self->m_lock.m_lock.held && self->m_lock.m_lock.acq == acq0 + 1, "one critical section, capacity unchanged [C02 C06 C07]")

typedef struct { bool has; uint64_t val, ord; cstl_tp exp; } uvw;
static uvw u_view(const tlru_cache *c, uint64_t k)
{
    uvw r; r.has = u_has(c, k); r.val = r.has ? u_val(c, k) : 0; r.ord = r.has ? u_ord(c, k) : 0; r.exp = r.has ? u_exp(c, k) : 0; return r;
}
#define SNAP() uvw g0 = u_view(self, G_g); uint64_t used0 = USED(self), cap0 = CAP(self); bool held0 = self->m_lock.m_lock.held; uint64_t acq0 = self->m_lock.m_lock.acq
#define KEPT(a, b) ((b).has == (a).has && (!(a).has || ((b).val == (a).val && (b).exp == (a).exp)))
#define SAME(a, b) (KEPT(a, b) && (!(a).has || (b).ord == (a).ord))

void h_do_erase(void)
{
    tlru_cache *self = u_bind();
    uint64_t idx;
    __CPROVER_assume(self->m_lock.m_lock.held && idx < CAP(self));
    cstl_iter x = self->m_elements.data[idx].m_lru_position;
    cstl_iter nodes[] = {x, NX(x), PV(x), PV(PV(self->m_lru_end))};
    uint64_t  keys[] = {G_g};
    u_assume_wf(self, nodes, 4, keys, 1);
    __CPROVER_assume(u_node(self, x) && self->P_L0.val[x] == idx && u_rank(self, x) < USED(self));
    uint64_t k = self->P_H.kv[self->m_elements.data[idx].m_keyed_position].first, k_ord = u_rank(self, x);
    KEY(k);
    SNAP();
    tlru_cache__do_erase(self, idx);
    uvw g1 = u_view(self, G_g);
    ASSERT_WF("tlru do_erase");
    __CPROVER_assert(!u_has(self, k), "U tlru do_erase: erased key gone [C01]");
    __CPROVER_assert(G_g == k || KEPT(g0, g1), "U tlru do_erase: every other key kept with value and deadline [C01 C03 C05]");
    __CPROVER_assert(G_g == k || !g0.has || g1.ord == g0.ord - (g0.ord > k_ord ? 1 : 0), "U tlru do_erase: recency ranks [C10]");
    __CPROVER_assert(USED(self) + 1 == used0, "U tlru do_erase: size [C02 C03]");
    __CPROVER_assert(0, "vacuity sentinel");
}

/* the eviction rule (C16, C10) observed at g (lost) and h (any resident) */
#define VICTIM_RULE(fn)                                                                                                       \
    __CPROVER_assert(!(g0.has && !g1.has && G_g != key_) || !(h0.has && now >= h0.exp) || now >= g0.exp, "U " fn ": if any resident had expired, the evicted entry had expired [C16]"); \
    __CPROVER_assert(!(g0.has && !g1.has && G_g != key_) || now >= g0.exp || g0.ord == used0 - 1, "U " fn ": an evicted live entry was the least recently used [C10]")

void h_do_prune(void)
{
    tlru_cache *self = u_bind();
    cstl_tp now; uint64_t key_ = 0; (void)key_;
    __CPROVER_assume(self->m_lock.m_lock.held);
    cstl_iter ng = NODEOF_ENTRY(self->P_H.idx[G_g]), nh = NODEOF_ENTRY(self->P_H.idx[G_h]);
    G_MMW[0] = TTLOF_NODE(ng); G_MMW[1] = TTLOF_NODE(nh); G_MMN = 2;
    cstl_iter vx = NODEOF_TTL(G_MMP), b = PV(HEAD(self));
    cstl_iter nodes[] = {vx, NX(vx), PV(vx), b, PV(b)};
    uint64_t  keys[] = {G_g, G_h};
    u_assume_wf(self, nodes, 5, keys, 2);
    TTL(G_MMP); KEY(self->P_H.kv[ENTRYOF_NODE(vx)].first); KEY(self->P_H.kv[ENTRYOF_NODE(b)].first);
    __CPROVER_assume(USED(self) >= CAP(self));
    SNAP();
    uvw h0 = u_view(self, G_h);
    tlru_cache__do_prune(self, now);
    uvw g1 = u_view(self, G_g);
    ASSERT_WF("tlru do_prune");
    __CPROVER_assert(USED(self) + 1 == used0, "U tlru do_prune: exactly one entry leaves [C02 C03]");
    __CPROVER_assert(!g1.has || KEPT(g0, g1), "U tlru do_prune: survivors keep value and deadline; nothing appears [C01 C03 C05]");
    key_ = G_g + 1; /* no inserted key here */
    VICTIM_RULE("tlru do_prune");
    __CPROVER_assert(0, "vacuity sentinel");
}

#define FIND_POST(fn)                                                                                                         \
    if (k0.has && now < k0.exp)                                                                                               \
    {                                                                                                                         \
        __CPROVER_assert(r.has && r.v == k0.val, "U " fn ": a live entry is served with its value [C01 C05]");                 \
        __CPROVER_assert(KEPT(g0, g1) && KEPT(k0, k1) && USED(self) == used0, "U " fn ": a hit adds, removes, overwrites nothing [C01 C03 C19]"); \
        __CPROVER_assert(peek == cappuccino_peek_no ? (k1.ord == 0 && (G_g == key || !g0.has || g1.ord == g0.ord + (g0.ord < k0.ord ? 1 : 0))) : (!g0.has || g1.ord == g0.ord), "U " fn ": a non-peek hit is a use, a peek is not [C10 C19]"); \
    }                                                                                                                         \
    else                                                                                                                      \
    {                                                                                                                         \
        __CPROVER_assert(!r.has, "U " fn ": an entry at or past its deadline is never served; an absent key is reported absent [C01 C04]"); \
        if (k0.has)                                                                                                           \
            __CPROVER_assert(!k1.has && (G_g == key || (KEPT(g0, g1) && (!g0.has || g1.ord == g0.ord - (g0.ord > k0.ord ? 1 : 0)))) && USED(self) + 1 == used0, "U " fn ": an expired entry is removed on the spot, nothing else changes [C03 C04 C19]"); \
        else                                                                                                                  \
            __CPROVER_assert(SAME(g0, g1) && USED(self) == used0, "U " fn ": a miss changes nothing [C03 C19]");               \
    }

void h_do_find(void)
{
    tlru_cache *self = u_bind();
    uint64_t key; int peek; cstl_tp now;
    __CPROVER_assume(self->m_lock.m_lock.held && (peek == cappuccino_peek_no || peek == cappuccino_peek_yes));
    cstl_iter x = NODEOF_ENTRY(self->P_H.idx[key]);
    cstl_iter nodes[] = {x, NX(x), PV(x), PV(PV(self->m_lru_end))};
    uint64_t  keys[] = {G_g, key};
    u_assume_wf(self, nodes, 4, keys, 2);
    SNAP();
    uvw k0 = u_view(self, key);
    cstl_opt r = tlru_cache__do_find(self, key, now, peek);
    uvw g1 = u_view(self, G_g), k1 = u_view(self, key);
    ASSERT_WF("tlru do_find");
    FIND_POST("tlru do_find");
    __CPROVER_assert(0, "vacuity sentinel");
}

void h_do_update(void)
{
    tlru_cache *self = u_bind();
    cstl_iter kp; uint64_t value; cstl_tp expire_time;
    __CPROVER_assume(self->m_lock.m_lock.held && kp != UEND && self->P_H.alive[kp]);
    cstl_iter x = NODEOF_ENTRY(kp);
    uint64_t  key = self->P_H.kv[kp].first;
    cstl_iter nodes[] = {x, NX(x), PV(x)};
    uint64_t  keys[] = {G_g, key};
    u_assume_wf(self, nodes, 3, keys, 2);
    ENTRY(kp);
    SNAP();
    uvw k0 = u_view(self, key);
    tlru_cache__do_update(self, kp, value, expire_time);
    uvw g1 = u_view(self, G_g), k1 = u_view(self, key);
    ASSERT_WF("tlru do_update");
    __CPROVER_assert(k1.has && k1.val == value && k1.exp == expire_time && k1.ord == 0, "U tlru do_update: value replaced, deadline restarted, most recently used [C01 C04 C05 C09 C10]");
    __CPROVER_assert(G_g == key || (KEPT(g0, g1) && (!g0.has || g1.ord == g0.ord + (g0.ord < k0.ord ? 1 : 0))), "U tlru do_update: other keys keep value and deadline [C01 C03 C05 C10]");
    __CPROVER_assert(USED(self) == used0, "U tlru do_update: size [C02 C03]");
    __CPROVER_assert(0, "vacuity sentinel");
}

#define INSERT_PRE()                                                                                                          \
    cstl_iter ng = NODEOF_ENTRY(self->P_H.idx[G_g]), nh = NODEOF_ENTRY(self->P_H.idx[G_h]);                                   \
    G_MMW[0] = TTLOF_NODE(ng); G_MMW[1] = TTLOF_NODE(nh); G_MMN = 2;                                                          \
    cstl_iter y = self->m_lru_end, b = PV(HEAD(self)), vx = NODEOF_TTL(G_MMP), x = NODEOF_ENTRY(self->P_H.idx[key]);          \
    cstl_iter nodes[] = {y, NX(y), PV(y), b, PV(b), vx, NX(vx), PV(vx), x, NX(x), PV(x)};                                     \
    uint64_t  keys[] = {G_g, G_h, key};                                                                                       \
    u_assume_wf(self, nodes, 11, keys, 3);                                                                                    \
    TTL(G_MMP); KEY(self->P_H.kv[ENTRYOF_NODE(vx)].first); KEY(self->P_H.kv[ENTRYOF_NODE(b)].first);                          \
    bool full = USED(self) >= CAP(self); uint64_t key_ = key

#define INSERTED_POST(fn)                                                                                                     \
    __CPROVER_assert(k1.has && k1.val == value && k1.exp == expire_time && k1.ord == 0, "U " fn ": the new key is stored with value and deadline as most recently used [C01 C03 C04 C05 C10]"); \
    __CPROVER_assert(USED(self) == (full ? cap0 : used0 + 1), "U " fn ": size grows by one unless full [C02 C03]");            \
    __CPROVER_assert(G_g == key || (g1.has ? KEPT(g0, g1) : (!g0.has || full)), "U " fn ": other keys keep value and deadline; one is lost only when full [C01 C03 C05]"); \
    VICTIM_RULE(fn)

void h_do_insert(void)
{
    tlru_cache *self = u_bind();
    uint64_t key, value; cstl_tp now, expire_time;
    __CPROVER_assume(self->m_lock.m_lock.held);
    INSERT_PRE();
    __CPROVER_assume(!u_has(self, key));
    SNAP();
    uvw h0 = u_view(self, G_h);
    tlru_cache__do_insert(self, key, value, now, expire_time);
    uvw g1 = u_view(self, G_g), k1 = u_view(self, key);
    ASSERT_WF("tlru do_insert");
    INSERTED_POST("tlru do_insert");
    __CPROVER_assert(0, "vacuity sentinel");
}

#define INSERT_UPDATE_POST(fn)                                                                                                \
    __CPROVER_assert(r == (k0.has ? ((a & 2) != 0 || ((a & 1) != 0 && now >= k0.exp)) : (a & 1) != 0), "U " fn ": result obeys the allow mode (allow::insert succeeds iff there is no LIVE entry) [C09]"); \
    __CPROVER_assert(r || (SAME(g0, g1) && SAME(k0, k1) && USED(self) == used0), "U " fn ": a rejected call changes nothing: value, deadline, order [C09 C19]"); \
    if (r && k0.has)                                                                                                          \
    {                                                                                                                         \
        __CPROVER_assert(k1.has && k1.val == value && k1.exp == expire_time && k1.ord == 0 && USED(self) == used0, "U " fn ": update replaces the value and restarts the deadline [C01 C04 C05 C09 C10]"); \
        __CPROVER_assert(G_g == key || (KEPT(g0, g1) && (!g0.has || g1.ord == g0.ord + (g0.ord < k0.ord ? 1 : 0))), "U " fn ": update keeps other keys [C01 C03 C05 C10]"); \
    }                                                                                                                         \
    if (r && !k0.has) { INSERTED_POST(fn); }

void h_do_insert_update(void)
{
    tlru_cache *self = u_bind();
    uint64_t key, value, a; cstl_tp now, expire_time;
    __CPROVER_assume(self->m_lock.m_lock.held && a >= 1 && a <= 3);
    INSERT_PRE();
    SNAP();
    uvw  k0 = u_view(self, key), h0 = u_view(self, G_h);
    bool r = tlru_cache__do_insert_update(self, key, value, now, expire_time, a);
    uvw  g1 = u_view(self, G_g), k1 = u_view(self, key);
    ASSERT_WF("tlru do_insert_update");
    INSERT_UPDATE_POST("tlru do_insert_update");
    __CPROVER_assert(0, "vacuity sentinel");
}

void h_insert(void)
{
    tlru_cache *self = u_bind();
    uint64_t key, value, a; cstl_ms ttl;
    __CPROVER_assume(!self->m_lock.m_lock.held && self->m_lock.m_lock.acq < UINT64_MAX - 1 && a >= 1 && a <= 3);
    __CPROVER_assume(ttl == G_MS && ttl >= 0 && ttl <= INT64_MAX / 1000000 && G_NOW >= 0 && G_NOW <= INT64_MAX - cstl_ms_to_ns(ttl)); /* TTL representable on the clock */
    cstl_tp now = G_NOW, expire_time = G_NOW + cstl_ms_to_ns(ttl);
    INSERT_PRE();
    SNAP();
    uvw  k0 = u_view(self, key), h0 = u_view(self, G_h);
    bool r = tlru_cache__insert(self, ttl, key, value, a);
    uvw  g1 = u_view(self, G_g), k1 = u_view(self, key);
    ASSERT_WF_PUB("tlru insert");
    INSERT_UPDATE_POST("tlru insert");
    __CPROVER_assert(0, "vacuity sentinel");
}

void h_find(void)
{
    tlru_cache *self = u_bind();
    uint64_t key; int peek;
    __CPROVER_assume(!self->m_lock.m_lock.held && self->m_lock.m_lock.acq < UINT64_MAX - 1 && (peek == cappuccino_peek_no || peek == cappuccino_peek_yes));
    cstl_tp now = G_NOW;
    cstl_iter x = NODEOF_ENTRY(self->P_H.idx[key]);
    cstl_iter nodes[] = {x, NX(x), PV(x), PV(PV(self->m_lru_end))};
    uint64_t  keys[] = {G_g, key};
    u_assume_wf(self, nodes, 4, keys, 2);
    SNAP();
    uvw k0 = u_view(self, key);
    cstl_opt r = tlru_cache__find(self, key, peek);
    uvw g1 = u_view(self, G_g), k1 = u_view(self, key);
    ASSERT_WF_PUB("tlru find");
    FIND_POST("tlru find");
    __CPROVER_assert(0, "vacuity sentinel");
}

void h_erase(void)
{
    tlru_cache *self = u_bind();
    uint64_t key;
    __CPROVER_assume(!self->m_lock.m_lock.held && self->m_lock.m_lock.acq < UINT64_MAX - 1);
    cstl_iter x = NODEOF_ENTRY(self->P_H.idx[key]);
    cstl_iter nodes[] = {x, NX(x), PV(x), PV(PV(self->m_lru_end))};
    uint64_t  keys[] = {G_g, key};
    u_assume_wf(self, nodes, 4, keys, 2);
    SNAP();
    uvw  k0 = u_view(self, key);
    bool r = tlru_cache__erase(self, key);
    uvw  g1 = u_view(self, G_g);
    ASSERT_WF_PUB("tlru erase");
    __CPROVER_assert(r == k0.has && !u_has(self, key), "U tlru erase: reports whether the key was present; absent afterwards [C01 C03]");
    __CPROVER_assert(G_g == key || KEPT(g0, g1), "U tlru erase: every other key kept with value and deadline [C01 C03 C05 C19]");
    __CPROVER_assert(G_g == key || !g0.has || g1.ord == (k0.has ? g0.ord - (g0.ord > k0.ord ? 1 : 0) : g0.ord), "U tlru erase: recency ranks [C10 C19]");
    __CPROVER_assert(USED(self) + (r ? 1 : 0) == used0, "U tlru erase: size [C02 C03 C19]");
    __CPROVER_assert(0, "vacuity sentinel");
}
