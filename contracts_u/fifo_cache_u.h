/* contracts_u/fifo_cache_u.h -- route U (unbounded capacity) specification of fifo_cache */
#ifndef FIFO_CACHE_U_H
#define FIFO_CACHE_U_H
#include "fifo_cache.h"
#define UEND CSTL_U_END
typedef fifo_cache C_;
#define LP(c) (&(c)->P_L0)
#define HP(c) (&(c)->P_H)
#define HEAD(c) ((c)->m_fifo_list.head)
#define CAP(c) ((c)->m_fifo_list.size)
#define USED(c) ((c)->m_used_size)
#define FREE(c) (CAP(c) - USED(c))

static inline uint64_t u_rank(const C_ *c, cstl_iter i) { return fifo_cache__L0_rank_now(LP(c), i); }
static inline bool u_owned(const C_ *c, cstl_iter i) { return LP(c)->owner[i] == HEAD(c); }
static inline bool u_node(const C_ *c, cstl_iter i) { return u_owned(c, i) && i != HEAD(c); }

static inline bool u_inv0(const C_ *c)
{
    cstl_iter h = HEAD(c);
    return CAP(c) >= 1 && USED(c) <= CAP(c) && c->m_keyed_elements.size == USED(c) && c->m_keyed_elements.reserved >= CAP(c)
           && LP(c)->alive[h] && LP(c)->sent[h] && LP(c)->owner[h] == h && u_rank(c, h) == CAP(c);
}
static inline bool u_inv_node(const C_ *c, cstl_iter i)
{
    const fifo_cache__L0_pool *P = LP(c);
    if (!u_owned(c, i)) return true;
    cstl_iter nx = P->next[i], pv = P->prev[i];
    if (!(P->alive[i] && u_owned(c, nx) && u_owned(c, pv) && P->prev[nx] == i && P->next[pv] == i)) return false;
    if (i == HEAD(c)) return u_rank(c, nx) == 0;
    if (P->sent[i]) return false;
    if (!(u_rank(c, i) < CAP(c) && u_rank(c, nx) == u_rank(c, i) + 1)) return false;
    cstl_opt kp = P->val[i].m_keyed_position;
    if (u_rank(c, i) < FREE(c)) return !kp.has;                                           /* free node   */
    return kp.has && kp.v != UEND && HP(c)->alive[kp.v] && HP(c)->kv[kp.v].second == i;   /* entry node  */
}
static inline bool u_inv_pair(const C_ *c, cstl_iter i, cstl_iter j)
{
    if (!(u_node(c, i) && u_node(c, j)) || i == j) return true;
    return u_rank(c, i) != u_rank(c, j);
}
static inline bool u_inv_entry(const C_ *c, cstl_iter e)
{
    if (e == UEND || !HP(c)->alive[e]) return true;
    cstl_iter n = HP(c)->kv[e].second;
    cstl_opt  kp = LP(c)->val[n].m_keyed_position;
    return u_node(c, n) && u_rank(c, n) >= FREE(c) && u_rank(c, n) < CAP(c) && kp.has && kp.v == e && HP(c)->idx[HP(c)->kv[e].first] == e;
}
static inline bool u_inv_key(const C_ *c, uint64_t k)
{
    cstl_iter e = HP(c)->idx[k];
    return e == UEND || (HP(c)->alive[e] && HP(c)->kv[e].first == k);
}
static inline bool u_has(const C_ *c, uint64_t k) { return HP(c)->idx[k] != UEND; }
static inline cstl_iter u_nodeof(const C_ *c, uint64_t k) { return HP(c)->kv[HP(c)->idx[k]].second; }
static inline uint64_t u_val(const C_ *c, uint64_t k) { return LP(c)->val[u_nodeof(c, k)].m_value; }
static inline uint64_t u_ord(const C_ *c, uint64_t k) { return u_rank(c, u_nodeof(c, k)) - FREE(c); } /* 0 = earliest inserted */
#endif
