/* contracts_u/fifo_cache_u.c -- route U harnesses for fifo_cache (see lru_cache_u.c for the pattern) */
#include "fifo_cache.c"
#include "fifo_cache_u.h"
uint64_t G_g, G_h; int64_t G_NOW; uint64_t G_RAND; cstl_ms G_MS; int64_t G_NS;
int64_t cstl_now(void) { return G_NOW; }
uint64_t cstl_rand_range(uint64_t a, uint64_t b) { __CPROVER_assume(a <= G_RAND && G_RAND <= b); return G_RAND; }
cstl_iter G_i, G_j, G_e; uint64_t G_k;
fifo_cache S;

#define NODE(i) __CPROVER_assume(u_inv_node(self, (i)))
#define ENTRY(e) __CPROVER_assume(u_inv_entry(self, (e)))
#define KEY(k) __CPROVER_assume(u_inv_key(self, (k)))
#define PAIR(i, j) __CPROVER_assume(u_inv_pair(self, (i), (j)) && u_inv_pair(self, (j), (i)))
#define NODEOF_ENTRY(e) (self->P_H.kv[(e)].second)
#define ENTRYOF_NODE(i) (self->P_L0.val[(i)].m_keyed_position.v)
#define NX(i) (self->P_L0.next[(i)])
#define PV(i) (self->P_L0.prev[(i)])

static fifo_cache *u_bind(void)
{
    fifo_cache *self = &S;
    fifo_cache__L0_pool_bind(&self->P_L0); fifo_cache__H_pool_bind(&self->P_H);
    return self;
}
static void u_assume_wf(fifo_cache *self, cstl_iter *nodes, unsigned n, uint64_t *keys, unsigned nk)
{
    __CPROVER_assume(u_inv0(self));
    cstl_iter all[24]; unsigned m = 0;
    for (unsigned a = 0; a < n; a++) all[m++] = nodes[a];
    cstl_iter h = HEAD(self);
    all[m++] = h; all[m++] = NX(h); all[m++] = NX(NX(h)); all[m++] = PV(h); all[m++] = G_i; all[m++] = G_j; all[m++] = NX(G_i); all[m++] = PV(G_i);
    all[m++] = NODEOF_ENTRY(G_e);
    for (unsigned a = 0; a < nk; a++) all[m++] = NODEOF_ENTRY(self->P_H.idx[keys[a]]);
    for (unsigned a = 0; a < m; a++)
    {
        NODE(all[a]);
        ENTRY(ENTRYOF_NODE(all[a]));
        for (unsigned b = a + 1; b < m; b++) PAIR(all[a], all[b]);
    }
    ENTRY(G_e); KEY(self->P_H.kv[G_e].first); KEY(G_k); ENTRY(self->P_H.idx[G_k]);
    for (unsigned a = 0; a < nk; a++) { KEY(keys[a]); ENTRY(self->P_H.idx[keys[a]]); }
}
#define ASSERT_WF_(fn, lockcond, locktxt)                                                                                     \
    __CPROVER_assert(u_inv0(self), "U " fn ": wf scalars (counter, reserve, sentinel) [C01 C02 C03 C08]");                      \
    __CPROVER_assert(u_inv_node(self, G_i), "U " fn ": wf node clause at an arbitrary node [C01 C02 C03 C08 C12]");             \
    __CPROVER_assert(u_inv_pair(self, G_i, G_j), "U " fn ": wf rank injectivity at an arbitrary pair [C01 C08 C12]");           \
    __CPROVER_assert(u_inv_entry(self, G_e), "U " fn ": wf index-entry clause at an arbitrary entry [C01 C02 C03 C08]");        \
    __CPROVER_assert(u_inv_key(self, G_k), "U " fn ": wf key clause at an arbitrary key [C01]");                                \
    __CPROVER_assert(CAP(self) == cap0 && (lockcond), "U " fn ": " locktxt)
#define ASSERT_WF(fn) ASSERT_WF_(fn, self->m_lock.m_lock.held == held0 && self->m_lock.m_lock.acq == acq0, "frame (capacity, lock state) [C02 C06]")
#define ASSERT_WF_PUB(fn) ASSERT_WF_(fn, !self->m_lock.m_lock.held && self->m_lock.m_lock.acq == acq0 + 1, "one critical section, capacity unchanged [C02 C06 C07]")

typedef struct { bool has; uint64_t val, ord; } uvw;
static uvw u_view(const fifo_cache *c, uint64_t k)
{
    uvw r; r.has = u_has(c, k); r.val = r.has ? u_val(c, k) : 0; r.ord = r.has ? u_ord(c, k) : 0; return r;
}
#define SNAP() uvw g0 = u_view(self, G_g); uint64_t used0 = USED(self), cap0 = CAP(self); bool held0 = self->m_lock.m_lock.held; uint64_t acq0 = self->m_lock.m_lock.acq
#define KEPT(a, b) ((b).has == (a).has && (!(a).has || (b).val == (a).val))
#define SAME(a, b) (KEPT(a, b) && (!(a).has || (b).ord == (a).ord))

void h_do_erase(void)
{
    fifo_cache *self = u_bind();
    cstl_iter x;
    __CPROVER_assume(self->m_lock.m_lock.held);
    cstl_iter nodes[] = {x, NX(x), PV(x)};
    uint64_t  keys[] = {G_g};
    u_assume_wf(self, nodes, 3, keys, 1);
    __CPROVER_assume(u_node(self, x) && self->P_L0.alive[x] && !self->P_L0.sent[x] && self->P_L0.val[x].m_keyed_position.has); /* requires: x holds an entry */
    __CPROVER_assume(u_rank(self, x) >= FREE(self));
    uint64_t k = self->P_H.kv[ENTRYOF_NODE(x)].first, k_ord = u_rank(self, x) - FREE(self);
    KEY(k);
    SNAP();
    fifo_cache__do_erase(self, x);
    uvw g1 = u_view(self, G_g);
    ASSERT_WF("fifo do_erase");
    __CPROVER_assert(!u_has(self, k), "U fifo do_erase: erased key gone [C01]");
    __CPROVER_assert(G_g == k || KEPT(g0, g1), "U fifo do_erase: every other key kept with its value [C01 C03]");
    __CPROVER_assert(G_g == k || !g0.has || g1.ord == g0.ord - (g0.ord > k_ord ? 1 : 0), "U fifo do_erase: insertion ranks [C12]");
    __CPROVER_assert(USED(self) + 1 == used0, "U fifo do_erase: size [C02 C03]");
    __CPROVER_assert(0, "vacuity sentinel");
}

void h_do_find(void)
{
    fifo_cache *self = u_bind();
    uint64_t key;
    __CPROVER_assume(self->m_lock.m_lock.held);
    uint64_t keys[] = {G_g, key};
    u_assume_wf(self, 0, 0, keys, 2);
    SNAP();
    uvw k0 = u_view(self, key);
    cstl_opt r = fifo_cache__do_find(self, key);
    uvw g1 = u_view(self, G_g), k1 = u_view(self, key);
    ASSERT_WF("fifo do_find");
    __CPROVER_assert(r.has == k0.has && (!r.has || r.v == k0.val), "U fifo do_find: a hit returns the stored value, a miss reports absent [C01]");
    __CPROVER_assert(SAME(g0, g1) && SAME(k0, k1) && USED(self) == used0, "U fifo do_find: nothing changes, order included [C01 C03 C12 C19]");
    __CPROVER_assert(0, "vacuity sentinel");
}

void h_do_update(void)
{
    fifo_cache *self = u_bind();
    cstl_iter kp; uint64_t value;
    __CPROVER_assume(self->m_lock.m_lock.held && kp != UEND && self->P_H.alive[kp]);
    uint64_t  key = self->P_H.kv[kp].first;
    cstl_iter nodes[] = {NODEOF_ENTRY(kp)};
    uint64_t  keys[] = {G_g, key};
    u_assume_wf(self, nodes, 1, keys, 2);
    ENTRY(kp);
    SNAP();
    uvw k0 = u_view(self, key);
    fifo_cache__do_update(self, kp, value);
    uvw g1 = u_view(self, G_g), k1 = u_view(self, key);
    ASSERT_WF("fifo do_update");
    __CPROVER_assert(k1.has && k1.val == value && k1.ord == k0.ord, "U fifo do_update: value replaced, insertion rank untouched [C01 C09 C12]");
    __CPROVER_assert((G_g == key || SAME(g0, g1)) && USED(self) == used0, "U fifo do_update: other keys kept, order unchanged [C01 C03 C12]");
    __CPROVER_assert(0, "vacuity sentinel");
}

static void post_insert(fifo_cache *self, uint64_t key, uint64_t value, uvw g0, uint64_t used0, uint64_t cap0, bool full, uint64_t victim)
{
    uvw g1 = u_view(self, G_g), k1 = u_view(self, key);
    uint64_t nsize = full ? cap0 : used0 + 1;
    __CPROVER_assert(k1.has && k1.val == value && k1.ord == nsize - 1, "U fifo insert path: the new key is stored with its value as the latest inserted [C01 C03 C12]");
    __CPROVER_assert(USED(self) == nsize, "U fifo insert path: size grows by one unless full [C02 C03]");
    __CPROVER_assert(!full || (victim != key && !u_has(self, victim)), "U fifo insert path: when full the earliest-inserted entry is evicted [C03 C12]");
    __CPROVER_assert(G_g == key || (full && G_g == victim) || (KEPT(g0, g1) && (!g0.has || g1.ord == (full ? g0.ord - 1 : g0.ord))), "U fifo insert path: every other key kept; ranks shift down iff an entry was evicted [C01 C03 C12]");
}
#define INSERT_PRE()                                                                                                          \
    cstl_iter b = NX(HEAD(self));                                                                                             \
    cstl_iter nodes[] = {b, NX(b), NODEOF_ENTRY(self->P_H.idx[key])};                                                         \
    uint64_t  keys[] = {G_g, key};                                                                                            \
    u_assume_wf(self, nodes, 3, keys, 2);                                                                                     \
    bool     full = USED(self) >= CAP(self);                                                                                  \
    uint64_t victim = self->P_H.kv[ENTRYOF_NODE(b)].first;                                                                    \
    KEY(victim);                                                                                                              \
    __CPROVER_assert(!full || (u_has(self, victim) && u_ord(self, victim) == 0), "U fifo insert path: the eviction candidate is the earliest-inserted entry [C12]")

void h_do_insert(void)
{
    fifo_cache *self = u_bind();
    uint64_t key, value;
    __CPROVER_assume(self->m_lock.m_lock.held);
    INSERT_PRE();
    __CPROVER_assume(!u_has(self, key));
    SNAP();
    fifo_cache__do_insert(self, key, value);
    ASSERT_WF("fifo do_insert");
    post_insert(self, key, value, g0, used0, cap0, full, victim);
    __CPROVER_assert(0, "vacuity sentinel");
}

#define INSERT_POST(fn)                                                                                                       \
    __CPROVER_assert(r == (k0.has ? (a & 2) != 0 : (a & 1) != 0), "U " fn ": result obeys the allow mode [C09]");               \
    __CPROVER_assert(r || (SAME(g0, g1) && SAME(k0, k1) && USED(self) == used0), "U " fn ": a rejected call changes nothing [C09 C19]"); \
    if (r && k0.has) __CPROVER_assert(k1.has && k1.val == value && k1.ord == k0.ord && USED(self) == used0 && (G_g == key || SAME(g0, g1)), "U " fn ": update replaces the value, order untouched [C01 C03 C09 C12]"); \
    if (r && !k0.has) post_insert(self, key, value, g0, used0, cap0, full, victim)

void h_do_insert_update(void)
{
    fifo_cache *self = u_bind();
    uint64_t key, value, a;
    __CPROVER_assume(self->m_lock.m_lock.held && a >= 1 && a <= 3);
    INSERT_PRE();
    SNAP();
    uvw  k0 = u_view(self, key);
    bool r = fifo_cache__do_insert_update(self, key, value, a);
    uvw  g1 = u_view(self, G_g), k1 = u_view(self, key);
    ASSERT_WF("fifo do_insert_update");
    INSERT_POST("fifo do_insert_update");
    __CPROVER_assert(0, "vacuity sentinel");
}

void h_insert(void)
{
    fifo_cache *self = u_bind();
    uint64_t key, value, a;
    __CPROVER_assume(!self->m_lock.m_lock.held && self->m_lock.m_lock.acq < UINT64_MAX - 1 && a >= 1 && a <= 3);
    INSERT_PRE();
    SNAP();
    uvw  k0 = u_view(self, key);
    bool r = fifo_cache__insert(self, key, value, a);
    uvw  g1 = u_view(self, G_g), k1 = u_view(self, key);
    ASSERT_WF_PUB("fifo insert");
    INSERT_POST("fifo insert");
    __CPROVER_assert(0, "vacuity sentinel");
}

void h_erase(void)
{
    fifo_cache *self = u_bind();
    uint64_t key;
    __CPROVER_assume(!self->m_lock.m_lock.held && self->m_lock.m_lock.acq < UINT64_MAX - 1);
    cstl_iter x = NODEOF_ENTRY(self->P_H.idx[key]);
    cstl_iter nodes[] = {x, NX(x), PV(x)};
    uint64_t  keys[] = {G_g, key};
    u_assume_wf(self, nodes, 3, keys, 2);
    SNAP();
    uvw  k0 = u_view(self, key);
    bool r = fifo_cache__erase(self, key);
    uvw  g1 = u_view(self, G_g);
    ASSERT_WF_PUB("fifo erase");
    __CPROVER_assert(r == k0.has && !u_has(self, key), "U fifo erase: reports whether the key was present; absent afterwards [C01 C03]");
    __CPROVER_assert(G_g == key || KEPT(g0, g1), "U fifo erase: every other key kept [C01 C03 C19]");
    __CPROVER_assert(G_g == key || !g0.has || g1.ord == (k0.has ? g0.ord - (g0.ord > k0.ord ? 1 : 0) : g0.ord), "U fifo erase: insertion ranks [C12 C19]");
    __CPROVER_assert(USED(self) + (r ? 1 : 0) == used0, "U fifo erase: size [C02 C03 C19]");
    __CPROVER_assert(0, "vacuity sentinel");
}

void h_find(void)
{
    fifo_cache *self = u_bind();
    uint64_t key;
    __CPROVER_assume(!self->m_lock.m_lock.held && self->m_lock.m_lock.acq < UINT64_MAX - 1);
    uint64_t keys[] = {G_g, key};
    u_assume_wf(self, 0, 0, keys, 2);
    SNAP();
    uvw k0 = u_view(self, key);
    cstl_opt r = fifo_cache__find(self, key);
    uvw g1 = u_view(self, G_g), k1 = u_view(self, key);
    ASSERT_WF_PUB("fifo find");
    __CPROVER_assert(r.has == k0.has && (!r.has || r.v == k0.val), "U fifo find: a hit returns the stored value, a miss reports absent [C01]");
    __CPROVER_assert(SAME(g0, g1) && SAME(k0, k1) && USED(self) == used0, "U fifo find: nothing changes, order included [C01 C03 C12 C19]");
    __CPROVER_assert(0, "vacuity sentinel");
}
