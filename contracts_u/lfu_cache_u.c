/* contracts_u/lfu_cache_u.c -- route U harnesses for lfu_cache (see lru_cache_u.c for the pattern) */
#include "lfu_cache.c"
#include "lfu_cache_u.h"
uint64_t G_g, G_h; int64_t G_NOW; uint64_t G_RAND; cstl_ms G_MS; int64_t G_NS;
int64_t cstl_now(void) { return G_NOW; }
uint64_t cstl_rand_range(uint64_t a, uint64_t b) { __CPROVER_assume(a <= G_RAND && G_RAND <= b); return G_RAND; }
cstl_iter G_i, G_j, G_e, G_f; uint64_t G_k;
lfu_cache S;

#define NODE(i) __CPROVER_assume(u_inv_node(self, (i)))
#define ENTRY(e) __CPROVER_assume(u_inv_entry(self, (e)))
#define CNT(f) __CPROVER_assume(u_inv_cnt(self, (f)))
#define KEY(k) __CPROVER_assume(u_inv_key(self, (k)))
#define PAIR(i, j) __CPROVER_assume(u_inv_pair(self, (i), (j)) && u_inv_pair(self, (j), (i)))
#define NODEOF_ENTRY(e) (self->P_H.kv[(e)].second)
#define ENTRYOF_NODE(i) (self->P_L0.val[(i)].m_keyed_position)
#define CNTOF_NODE(i) (self->P_L0.val[(i)].m_lfu_position)
#define NX(i) (self->P_L0.next[(i)])
#define PV(i) (self->P_L0.prev[(i)])

static lfu_cache *u_bind(void)
{
    lfu_cache *self = &S;
    lfu_cache__L0_pool_bind(&self->P_L0); lfu_cache__H_pool_bind(&self->P_H); lfu_cache__R_pool_bind(&self->P_R);
    G_MMN = 0;
    return self;
}
static void u_assume_wf(lfu_cache *self, cstl_iter *nodes, unsigned n, uint64_t *keys, unsigned nk)
{
    __CPROVER_assume(u_inv0(self));
    cstl_iter all[24]; unsigned m = 0;
    for (unsigned a = 0; a < n; a++) all[m++] = nodes[a];
    cstl_iter h = HEAD(self), end = self->m_open_list_end;
    all[m++] = h; all[m++] = NX(h); all[m++] = PV(h); all[m++] = end; all[m++] = PV(end); all[m++] = PV(PV(end)); all[m++] = G_i; all[m++] = G_j; all[m++] = NX(G_i); all[m++] = PV(G_i);
    all[m++] = NODEOF_ENTRY(G_e); all[m++] = self->P_R.kv[G_f].second;
    for (unsigned a = 0; a < nk; a++) all[m++] = NODEOF_ENTRY(self->P_H.idx[keys[a]]);
    for (unsigned a = 0; a < m; a++)
    {
        NODE(all[a]);
        ENTRY(ENTRYOF_NODE(all[a]));
        CNT(CNTOF_NODE(all[a]));
        for (unsigned b = a + 1; b < m; b++) PAIR(all[a], all[b]);
    }
    ENTRY(G_e); CNT(G_f); KEY(self->P_H.kv[G_e].first); KEY(G_k); ENTRY(self->P_H.idx[G_k]);
    for (unsigned a = 0; a < nk; a++) { KEY(keys[a]); ENTRY(self->P_H.idx[keys[a]]); }
}
#define ASSERT_WF_(fn, lockcond, locktxt)                                                                                     \
    __CPROVER_assert(u_inv0(self), "U " fn ": wf scalars (counters, partition iterator, reserve) [C01 C02 C03 C08]");           \
    __CPROVER_assert(u_inv_node(self, G_i), "U " fn ": wf node clause at an arbitrary node [C01 C02 C03 C08 C11]");             \
    __CPROVER_assert(u_inv_pair(self, G_i, G_j), "U " fn ": wf rank injectivity at an arbitrary pair [C01 C08]");               \
    __CPROVER_assert(u_inv_entry(self, G_e), "U " fn ": wf index-entry clause at an arbitrary entry [C01 C02 C03 C08]");        \
    __CPROVER_assert(u_inv_cnt(self, G_f), "U " fn ": wf use-count-entry clause at an arbitrary entry [C08 C11]");              \
    __CPROVER_assert(u_inv_key(self, G_k), "U " fn ": wf key clause at an arbitrary key [C01]");                                \
    __CPROVER_assert(CAP(self) == cap0 && (lockcond), "U " fn ": " locktxt)
#define ASSERT_WF(fn) ASSERT_WF_(fn, self->m_lock.m_lock.held == held0 && self->m_lock.m_lock.acq == acq0, "frame (capacity, lock state) [C02 C06]")
#define ASSERT_WF_PUB(fn) ASSERT_WF_(fn, !self->m_lock.m_lock.held && self->m_lock.m_lock.acq == acq0 + 1, "one critical section, capacity unchanged [C02 C06 C07]")

typedef struct { bool has; uint64_t val, cnt; } uvw;
static uvw u_view(const lfu_cache *c, uint64_t k)
{
    uvw r; r.has = u_has(c, k); r.val = r.has ? u_val(c, k) : 0; r.cnt = r.has ? u_cnt(c, k) : 0; return r;
}
#define SNAP() uvw g0 = u_view(self, G_g); uint64_t used0 = USED(self), cap0 = CAP(self); bool held0 = self->m_lock.m_lock.held; uint64_t acq0 = self->m_lock.m_lock.acq
#define SAME(a, b) ((b).has == (a).has && (!(a).has || ((b).val == (a).val && (b).cnt == (a).cnt)))

void h_do_erase(void)
{
    lfu_cache *self = u_bind();
    cstl_iter x;
    __CPROVER_assume(self->m_lock.m_lock.held);
    cstl_iter nodes[] = {x, NX(x), PV(x)};
    uint64_t  keys[] = {G_g};
    u_assume_wf(self, nodes, 3, keys, 1);
    __CPROVER_assume(u_node(self, x) && u_rank(self, x) < USED(self)); /* requires: x holds an entry */
    uint64_t k = self->P_H.kv[ENTRYOF_NODE(x)].first;
    KEY(k);
    SNAP();
    lfu_cache__do_erase(self, x);
    uvw g1 = u_view(self, G_g);
    ASSERT_WF("lfu do_erase");
    __CPROVER_assert(!u_has(self, k), "U lfu do_erase: erased key gone [C01]");
    __CPROVER_assert(G_g == k || SAME(g0, g1), "U lfu do_erase: every other key kept with value and use count [C01 C03 C11]");
    __CPROVER_assert(USED(self) + 1 == used0, "U lfu do_erase: size [C02 C03]");
    __CPROVER_assert(0, "vacuity sentinel");
}

void h_do_prune(void)
{
    lfu_cache *self = u_bind();
    __CPROVER_assume(self->m_lock.m_lock.held);
    cstl_iter ng = NODEOF_ENTRY(self->P_H.idx[G_g]), nh = NODEOF_ENTRY(self->P_H.idx[G_h]);
    G_MMW[0] = CNTOF_NODE(ng); G_MMW[1] = CNTOF_NODE(nh); G_MMN = 2; /* "begin() is minimal" is needed at the ghost keys' use-count entries */
    cstl_iter vx = self->P_R.kv[G_MMP].second; /* the node of the entry begin() will return (prophecy) */
    cstl_iter nodes[] = {vx, NX(vx), PV(vx)};
    uint64_t  keys[] = {G_g, G_h};
    u_assume_wf(self, nodes, 3, keys, 2);
    CNT(G_MMP); KEY(self->P_H.kv[ENTRYOF_NODE(vx)].first);
    __CPROVER_assume(USED(self) >= CAP(self)); /* requires: full */
    SNAP();
    uvw h0 = u_view(self, G_h);
    lfu_cache__do_prune(self);
    uvw g1 = u_view(self, G_g), h1 = u_view(self, G_h);
    ASSERT_WF("lfu do_prune");
    __CPROVER_assert(USED(self) + 1 == used0, "U lfu do_prune: exactly one entry leaves [C02 C03]");
    __CPROVER_assert(!(g0.has && !g1.has && h0.has && h1.has) || g0.cnt <= h0.cnt, "U lfu do_prune: the victim's use count is minimal (instance: evicted g, surviving h) [C11]");
    __CPROVER_assert(!g1.has || SAME(g0, g1), "U lfu do_prune: survivors keep value and use count; nothing appears [C01 C03 C11]");
    __CPROVER_assert(0, "vacuity sentinel");
}

void h_do_find(void)
{
    lfu_cache *self = u_bind();
    uint64_t key; bool peek;
    __CPROVER_assume(self->m_lock.m_lock.held);
    uint64_t keys[] = {G_g, key};
    u_assume_wf(self, 0, 0, keys, 2);
    SNAP();
    uvw k0 = u_view(self, key);
    __CPROVER_assume(!k0.has || k0.cnt < UINT64_MAX); /* arithmetic assumption: use counts do not wrap */
    cstl_opt r = lfu_cache__do_find(self, key, peek);
    uvw g1 = u_view(self, G_g), k1 = u_view(self, key);
    ASSERT_WF("lfu do_find");
    __CPROVER_assert(r.has == k0.has && (!r.has || r.v == k0.val), "U lfu do_find: a hit returns the stored value, a miss reports absent [C01]");
    __CPROVER_assert((G_g == key || SAME(g0, g1)) && USED(self) == used0 && k1.has == k0.has && (!k0.has || k1.val == k0.val), "U lfu do_find: nothing added, removed or overwritten; other counts unchanged [C01 C03 C11 C19]");
    __CPROVER_assert(!k0.has || k1.cnt == k0.cnt + (peek ? 0 : 1), "U lfu do_find: a non-peek hit adds exactly one use, a peek none [C11 C19]");
    __CPROVER_assert(0, "vacuity sentinel");
}

void h_do_update(void)
{
    lfu_cache *self = u_bind();
    cstl_iter kp; uint64_t value;
    __CPROVER_assume(self->m_lock.m_lock.held && kp != UEND && self->P_H.alive[kp]);
    uint64_t  key = self->P_H.kv[kp].first;
    cstl_iter nodes[] = {NODEOF_ENTRY(kp)};
    uint64_t  keys[] = {G_g, key};
    u_assume_wf(self, nodes, 1, keys, 2);
    ENTRY(kp);
    SNAP();
    uvw k0 = u_view(self, key);
    __CPROVER_assume(k0.cnt < UINT64_MAX);
    lfu_cache__do_update(self, kp, value);
    uvw g1 = u_view(self, G_g), k1 = u_view(self, key);
    ASSERT_WF("lfu do_update");
    __CPROVER_assert(k1.has && k1.val == value && k1.cnt == k0.cnt + 1, "U lfu do_update: value replaced, one more use [C01 C09 C11]");
    __CPROVER_assert((G_g == key || SAME(g0, g1)) && USED(self) == used0, "U lfu do_update: other keys kept with their counts [C01 C03 C11]");
    __CPROVER_assert(0, "vacuity sentinel");
}

static void post_insert(lfu_cache *self, uint64_t key, uint64_t value, uvw g0, uvw h0, uint64_t used0, uint64_t cap0, bool full)
{
    uvw g1 = u_view(self, G_g), k1 = u_view(self, key), h1 = u_view(self, G_h);
    __CPROVER_assert(k1.has && k1.val == value && k1.cnt == 1, "U lfu insert path: the new key is stored with its value and use count 1 [C01 C03 C11]");
    __CPROVER_assert(USED(self) == (full ? cap0 : used0 + 1), "U lfu insert path: size grows by one unless full [C02 C03]");
    __CPROVER_assert(G_g == key || (g1.has ? SAME(g0, g1) : (!g0.has || full)), "U lfu insert path: other keys kept with their counts; an entry is lost only when full [C01 C03 C11]");
    __CPROVER_assert(G_g == key || G_h == key || !(g0.has && !g1.has && h0.has && h1.has) || g0.cnt <= h0.cnt, "U lfu insert path: the evicted entry's use count is minimal (instance: evicted g, surviving h) [C11]");
}
#define INSERT_PRE()                                                                                                          \
    cstl_iter ng = NODEOF_ENTRY(self->P_H.idx[G_g]), nh = NODEOF_ENTRY(self->P_H.idx[G_h]);                                   \
    G_MMW[0] = CNTOF_NODE(ng); G_MMW[1] = CNTOF_NODE(nh); G_MMN = 2;                                                          \
    cstl_iter y = self->m_open_list_end, vx = self->P_R.kv[G_MMP].second;                                                     \
    cstl_iter nodes[] = {y, NX(y), PV(y), NODEOF_ENTRY(self->P_H.idx[key]), vx, NX(vx), PV(vx)};                              \
    uint64_t  keys[] = {G_g, G_h, key};                                                                                       \
    u_assume_wf(self, nodes, 7, keys, 3);                                                                                     \
    CNT(G_MMP); KEY(self->P_H.kv[ENTRYOF_NODE(vx)].first);                                                                    \
    bool full = USED(self) >= CAP(self)

void h_do_insert(void)
{
    lfu_cache *self = u_bind();
    uint64_t key, value;
    __CPROVER_assume(self->m_lock.m_lock.held);
    INSERT_PRE();
    __CPROVER_assume(!u_has(self, key));
    SNAP();
    uvw h0 = u_view(self, G_h);
    lfu_cache__do_insert(self, key, value);
    ASSERT_WF("lfu do_insert");
    post_insert(self, key, value, g0, h0, used0, cap0, full);
    __CPROVER_assert(0, "vacuity sentinel");
}

#define INSERT_POST(fn)                                                                                                       \
    __CPROVER_assert(r == (k0.has ? (a & 2) != 0 : (a & 1) != 0), "U " fn ": result obeys the allow mode [C09]");               \
    __CPROVER_assert(r || (SAME(g0, g1) && SAME(k0, k1) && USED(self) == used0), "U " fn ": a rejected call changes nothing, use counts included [C09 C11 C19]"); \
    if (r && k0.has) __CPROVER_assert(k1.has && k1.val == value && k1.cnt == k0.cnt + 1 && USED(self) == used0 && (G_g == key || SAME(g0, g1)), "U " fn ": update replaces the value and adds one use [C01 C03 C09 C11]"); \
    if (r && !k0.has) post_insert(self, key, value, g0, h0, used0, cap0, full)

void h_do_insert_update(void)
{
    lfu_cache *self = u_bind();
    uint64_t key, value, a;
    __CPROVER_assume(self->m_lock.m_lock.held && a >= 1 && a <= 3);
    INSERT_PRE();
    SNAP();
    uvw k0 = u_view(self, key), h0 = u_view(self, G_h);
    __CPROVER_assume(!k0.has || k0.cnt < UINT64_MAX);
    bool r = lfu_cache__do_insert_update(self, key, value, a);
    uvw  g1 = u_view(self, G_g), k1 = u_view(self, key);
    ASSERT_WF("lfu do_insert_update");
    INSERT_POST("lfu do_insert_update");
    __CPROVER_assert(0, "vacuity sentinel");
}

void h_insert(void)
{
    lfu_cache *self = u_bind();
    uint64_t key, value, a;
    __CPROVER_assume(!self->m_lock.m_lock.held && self->m_lock.m_lock.acq < UINT64_MAX - 1 && a >= 1 && a <= 3);
    INSERT_PRE();
    SNAP();
    uvw k0 = u_view(self, key), h0 = u_view(self, G_h);
    __CPROVER_assume(!k0.has || k0.cnt < UINT64_MAX);
    bool r = lfu_cache__insert(self, key, value, a);
    uvw  g1 = u_view(self, G_g), k1 = u_view(self, key);
    ASSERT_WF_PUB("lfu insert");
    INSERT_POST("lfu insert");
    __CPROVER_assert(0, "vacuity sentinel");
}

void h_erase(void)
{
    lfu_cache *self = u_bind();
    uint64_t key;
    __CPROVER_assume(!self->m_lock.m_lock.held && self->m_lock.m_lock.acq < UINT64_MAX - 1);
    cstl_iter x = NODEOF_ENTRY(self->P_H.idx[key]);
    cstl_iter nodes[] = {x, NX(x), PV(x)};
    uint64_t  keys[] = {G_g, key};
    u_assume_wf(self, nodes, 3, keys, 2);
    SNAP();
    uvw  k0 = u_view(self, key);
    bool r = lfu_cache__erase(self, key);
    uvw  g1 = u_view(self, G_g);
    ASSERT_WF_PUB("lfu erase");
    __CPROVER_assert(r == k0.has && !u_has(self, key), "U lfu erase: reports whether the key was present; absent afterwards [C01 C03]");
    __CPROVER_assert((G_g == key || SAME(g0, g1)) && USED(self) + (r ? 1 : 0) == used0, "U lfu erase: every other key kept with its count; size [C01 C02 C03 C11 C19]");
    __CPROVER_assert(0, "vacuity sentinel");
}

void h_find_with_use_count(void)
{
    lfu_cache *self = u_bind();
    uint64_t key; bool peek;
    __CPROVER_assume(!self->m_lock.m_lock.held && self->m_lock.m_lock.acq < UINT64_MAX - 1);
    uint64_t keys[] = {G_g, key};
    u_assume_wf(self, 0, 0, keys, 2);
    SNAP();
    uvw k0 = u_view(self, key);
    __CPROVER_assume(!k0.has || k0.cnt < UINT64_MAX);
    cstl_opt_pair r = lfu_cache__find_with_use_count(self, key, peek);
    uvw g1 = u_view(self, G_g), k1 = u_view(self, key);
    ASSERT_WF_PUB("lfu find_with_use_count");
    __CPROVER_assert(r.has == k0.has && (!r.has || (r.v.first == k0.val && r.v.second == k1.cnt)), "U lfu find_with_use_count: reports the stored value and the use count including this access [C01 C11]");
    __CPROVER_assert((G_g == key || SAME(g0, g1)) && USED(self) == used0 && k1.has == k0.has && (!k0.has || (k1.val == k0.val && k1.cnt == k0.cnt + (peek ? 0 : 1))), "U lfu find_with_use_count: one use iff not peeking; nothing else changes [C01 C03 C11 C19]");
    __CPROVER_assert(0, "vacuity sentinel");
}
