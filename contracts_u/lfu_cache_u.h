/* contracts_u/lfu_cache_u.h -- route U (unbounded capacity) specification of lfu_cache */
#ifndef LFU_CACHE_U_H
#define LFU_CACHE_U_H
#include "lfu_cache.h"
#define UEND CSTL_U_END
typedef lfu_cache C_;
#define LP(c) (&(c)->P_L0)
#define HP(c) (&(c)->P_H)
#define RP(c) (&(c)->P_R)
#define HEAD(c) ((c)->m_open_list.head)
#define CAP(c) ((c)->m_open_list.size)
#define USED(c) ((c)->m_used_size)

static inline uint64_t u_rank(const C_ *c, cstl_iter i) { return lfu_cache__L0_rank_now(LP(c), i); }
static inline bool u_owned(const C_ *c, cstl_iter i) { return LP(c)->owner[i] == HEAD(c); }
static inline bool u_node(const C_ *c, cstl_iter i) { return u_owned(c, i) && i != HEAD(c); }

static inline bool u_inv0(const C_ *c)
{
    cstl_iter h = HEAD(c);
    return CAP(c) >= 1 && USED(c) <= CAP(c) && c->m_keyed_elements.size == USED(c) && c->m_keyed_elements.reserved >= CAP(c) && c->m_lfu_list.size == USED(c)
           && LP(c)->alive[h] && LP(c)->sent[h] && LP(c)->owner[h] == h && u_rank(c, h) == CAP(c)
           && u_owned(c, c->m_open_list_end) && u_rank(c, c->m_open_list_end) == USED(c);
}
static inline bool u_inv_node(const C_ *c, cstl_iter i)
{
    const lfu_cache__L0_pool *P = LP(c);
    if (!u_owned(c, i)) return true;
    cstl_iter nx = P->next[i], pv = P->prev[i];
    if (!(P->alive[i] && u_owned(c, nx) && u_owned(c, pv) && P->prev[nx] == i && P->next[pv] == i)) return false;
    if (i == HEAD(c)) return u_rank(c, nx) == 0;
    if (P->sent[i]) return false;
    if (!(u_rank(c, i) < CAP(c) && u_rank(c, nx) == u_rank(c, i) + 1)) return false;
    if (u_rank(c, i) < USED(c))
    {
        cstl_iter kp = P->val[i].m_keyed_position, fp = P->val[i].m_lfu_position;
        if (!(kp != UEND && HP(c)->alive[kp] && HP(c)->kv[kp].second == i)) return false;
        if (!(fp != UEND && RP(c)->alive[fp] && RP(c)->kv[fp].second == i)) return false;
    }
    return true;
}
static inline bool u_inv_pair(const C_ *c, cstl_iter i, cstl_iter j)
{
    if (!(u_node(c, i) && u_node(c, j)) || i == j) return true;
    return u_rank(c, i) != u_rank(c, j);
}
static inline bool u_inv_entry(const C_ *c, cstl_iter e)
{
    if (e == UEND || !HP(c)->alive[e]) return true;
    cstl_iter n = HP(c)->kv[e].second;
    return u_node(c, n) && u_rank(c, n) < USED(c) && LP(c)->val[n].m_keyed_position == e && HP(c)->idx[HP(c)->kv[e].first] == e;
}
/* F(f): a live use-count entry points at a used node that points back */
static inline bool u_inv_cnt(const C_ *c, cstl_iter f)
{
    if (f == UEND || !RP(c)->alive[f]) return true;
    cstl_iter n = RP(c)->kv[f].second;
    return u_node(c, n) && u_rank(c, n) < USED(c) && LP(c)->val[n].m_lfu_position == f;
}
static inline bool u_inv_key(const C_ *c, uint64_t k)
{
    cstl_iter e = HP(c)->idx[k];
    return e == UEND || (HP(c)->alive[e] && HP(c)->kv[e].first == k);
}
static inline bool u_has(const C_ *c, uint64_t k) { return HP(c)->idx[k] != UEND; }
static inline cstl_iter u_nodeof(const C_ *c, uint64_t k) { return HP(c)->kv[HP(c)->idx[k]].second; }
static inline uint64_t u_val(const C_ *c, uint64_t k) { return LP(c)->val[u_nodeof(c, k)].m_value; }
static inline uint64_t u_cnt(const C_ *c, uint64_t k) { return RP(c)->kv[LP(c)->val[u_nodeof(c, k)].m_lfu_position].first; }
#endif
