/* contracts_u/rr_cache_u.c -- route U harnesses for rr_cache (see lru_cache_u.c for the pattern) */
#include "rr_cache.c"
#include "rr_cache_u.h"
uint64_t G_g, G_h; int64_t G_NOW; uint64_t G_RAND; cstl_ms G_MS; int64_t G_NS;
int64_t cstl_now(void) { return G_NOW; }
uint64_t cstl_rand_range(uint64_t a, uint64_t b)
{
    __CPROVER_assert(a <= b, "std.uniform_int_distribution: a <= b [C08 C15]");
    __CPROVER_assume(a <= G_RAND && G_RAND <= b);
    return G_RAND;
}
uint64_t G_i, G_j; cstl_iter G_e; uint64_t G_k;
rr_cache S;

#define POS(i) __CPROVER_assume(u_inv_pos(self, (i)))
#define ENTRY(e) __CPROVER_assume(u_inv_entry(self, (e)))
#define KEY(k) __CPROVER_assume(u_inv_key(self, (k)))
#define PAIR(i, j) __CPROVER_assume(u_inv_pair(self, (i), (j)))
#define POSOF_ENTRY(e) (self->m_elements.data[self->P_H.kv[(e)].second].m_open_list_position)
#define ENTRYOF_POS(i) (self->m_elements.data[OPEN(self, (i))].m_keyed_position)

static rr_cache *u_bind(void)
{
    rr_cache *self = &S;
    rr_cache__H_pool_bind(&self->P_H); rr_cache__V0_bind(&self->m_elements); rr_cache__V1_bind(&self->m_open_list);
    return self;
}
static void u_assume_wf(rr_cache *self, uint64_t *pos, unsigned n, uint64_t *keys, unsigned nk)
{
    __CPROVER_assume(u_inv0(self));
    uint64_t all[16]; unsigned m = 0;
    for (unsigned a = 0; a < n; a++) all[m++] = pos[a];
    all[m++] = USED(self); all[m++] = USED(self) - 1; all[m++] = G_i; all[m++] = G_j; all[m++] = POSOF_ENTRY(G_e);
    for (unsigned a = 0; a < nk; a++) all[m++] = POSOF_ENTRY(self->P_H.idx[keys[a]]);
    for (unsigned a = 0; a < m; a++)
    {
        POS(all[a]);
        ENTRY(ENTRYOF_POS(all[a]));
        for (unsigned b = 0; b < m; b++) PAIR(all[a], all[b]);
    }
    ENTRY(G_e); KEY(self->P_H.kv[G_e].first); KEY(G_k); ENTRY(self->P_H.idx[G_k]);
    for (unsigned a = 0; a < nk; a++) { KEY(keys[a]); ENTRY(self->P_H.idx[keys[a]]); }
}
#define ASSERT_WF_(fn, lockcond, locktxt)                                                                                     \
    __CPROVER_assert(u_inv0(self), "U " fn ": wf scalars (counter, reserve) [C01 C02 C03 C08]");                                \
    __CPROVER_assert(u_inv_pos(self, G_i), "U " fn ": wf open-list clause at an arbitrary position [C01 C02 C03 C08 C15]");     \
    __CPROVER_assert(u_inv_pair(self, G_i, G_j), "U " fn ": wf open list injective at an arbitrary pair [C01 C08 C15]");        \
    __CPROVER_assert(u_inv_entry(self, G_e), "U " fn ": wf index-entry clause at an arbitrary entry [C01 C02 C03 C08]");        \
    __CPROVER_assert(u_inv_key(self, G_k), "U " fn ": wf key clause at an arbitrary key [C01]");                                \
    __CPROVER_assert(self->m_elements.size == cap0 && (lockcond), "U " fn ": " locktxt)
#define ASSERT_WF(fn) ASSERT_WF_(fn, self->m_lock.m_lock.held == held0 && self->m_lock.m_lock.acq == acq0, "frame (capacity, lock state) [C02 C06]")
#define ASSERT_WF_PUB(fn) ASSERT_WF_(fn, !self->m_lock.m_lock.held && self->m_lock.m_lock.acq == acq0 + 1, "one critical section, capacity unchanged [C02 C06 C07]")

typedef struct { bool has; uint64_t val; } uvw;
static uvw u_view(const rr_cache *c, uint64_t k) { uvw r; r.has = u_has(c, k); r.val = r.has ? u_val(c, k) : 0; return r; }
#define SNAP() uvw g0 = u_view(self, G_g); uint64_t used0 = USED(self), cap0 = CAP(self); bool held0 = self->m_lock.m_lock.held; uint64_t acq0 = self->m_lock.m_lock.acq
#define KEPT(a, b) ((b).has == (a).has && (!(a).has || (b).val == (a).val))

void h_do_erase(void)
{
    rr_cache *self = u_bind();
    uint64_t idx;
    __CPROVER_assume(self->m_lock.m_lock.held && idx < CAP(self));
    uint64_t p = self->m_elements.data[idx].m_open_list_position;
    uint64_t pos[] = {p};
    uint64_t keys[] = {G_g};
    u_assume_wf(self, pos, 1, keys, 1);
    __CPROVER_assume(p < USED(self) && OPEN(self, p) == idx); /* requires: slot idx is in use */
    uint64_t k = self->P_H.kv[self->m_elements.data[idx].m_keyed_position].first;
    KEY(k);
    SNAP();
    rr_cache__do_erase(self, idx);
    uvw g1 = u_view(self, G_g);
    ASSERT_WF("rr do_erase");
    __CPROVER_assert(!u_has(self, k), "U rr do_erase: erased key gone [C01]");
    __CPROVER_assert(G_g == k || KEPT(g0, g1), "U rr do_erase: every other key kept with its value [C01 C03]");
    __CPROVER_assert(USED(self) + 1 == used0, "U rr do_erase: size [C02 C03]");
    __CPROVER_assert(0, "vacuity sentinel");
}

void h_do_prune(void)
{
    rr_cache *self = u_bind();
    __CPROVER_assume(self->m_lock.m_lock.held);
    uint64_t p = self->m_elements.data[G_RAND].m_open_list_position;
    uint64_t pos[] = {p};
    uint64_t keys[] = {G_g};
    u_assume_wf(self, pos, 1, keys, 1);
    __CPROVER_assume(USED(self) >= CAP(self)); /* requires: full */
    /* every slot of a full cache is in use: the slot's back-pointer clause, instantiated at the drawn slot through its entry */
    __CPROVER_assume(G_RAND >= CAP(self) || (p < USED(self) && OPEN(self, p) == G_RAND)); /* H/O clauses at the drawn slot (surjectivity of a permutation of a full cache) */
    uint64_t k = self->P_H.kv[self->m_elements.data[G_RAND < CAP(self) ? G_RAND : 0].m_keyed_position].first;
    KEY(k);
    SNAP();
    rr_cache__do_prune(self);
    uvw g1 = u_view(self, G_g);
    ASSERT_WF("rr do_prune");
    __CPROVER_assert(G_RAND < cap0 && !u_has(self, k), "U rr do_prune: the victim is the resident of the drawn slot [C03 C15]");
    __CPROVER_assert(G_g == k || KEPT(g0, g1), "U rr do_prune: every other key kept [C01 C03 C15]");
    __CPROVER_assert(USED(self) + 1 == used0, "U rr do_prune: exactly one entry leaves [C02 C03 C15]");
    __CPROVER_assert(0, "vacuity sentinel");
}

void h_do_find(void)
{
    rr_cache *self = u_bind();
    uint64_t key;
    __CPROVER_assume(self->m_lock.m_lock.held);
    uint64_t keys[] = {G_g, key};
    u_assume_wf(self, 0, 0, keys, 2);
    SNAP();
    uvw k0 = u_view(self, key);
    cstl_opt r = rr_cache__do_find(self, key);
    uvw g1 = u_view(self, G_g), k1 = u_view(self, key);
    ASSERT_WF("rr do_find");
    __CPROVER_assert(r.has == k0.has && (!r.has || r.v == k0.val), "U rr do_find: a hit returns the stored value, a miss reports absent [C01]");
    __CPROVER_assert(KEPT(g0, g1) && KEPT(k0, k1) && USED(self) == used0, "U rr do_find: nothing changes [C01 C03 C19]");
    __CPROVER_assert(0, "vacuity sentinel");
}

void h_do_update(void)
{
    rr_cache *self = u_bind();
    cstl_iter kp; uint64_t value;
    __CPROVER_assume(self->m_lock.m_lock.held && kp != UEND && self->P_H.alive[kp]);
    uint64_t key = self->P_H.kv[kp].first;
    uint64_t pos[] = {POSOF_ENTRY(kp)};
    uint64_t keys[] = {G_g, key};
    u_assume_wf(self, pos, 1, keys, 2);
    ENTRY(kp);
    SNAP();
    rr_cache__do_update(self, kp, value);
    uvw g1 = u_view(self, G_g), k1 = u_view(self, key);
    ASSERT_WF("rr do_update");
    __CPROVER_assert(k1.has && k1.val == value, "U rr do_update: value replaced [C01 C09]");
    __CPROVER_assert((G_g == key || KEPT(g0, g1)) && USED(self) == used0, "U rr do_update: other keys kept [C01 C03]");
    __CPROVER_assert(0, "vacuity sentinel");
}

static void post_insert(rr_cache *self, uint64_t key, uint64_t value, uvw g0, uint64_t used0, uint64_t cap0, bool full, uint64_t victim)
{
    uvw g1 = u_view(self, G_g), k1 = u_view(self, key);
    __CPROVER_assert(k1.has && k1.val == value, "U rr insert path: the new key is stored with its value [C01 C03]");
    __CPROVER_assert(USED(self) == (full ? cap0 : used0 + 1), "U rr insert path: size grows by one unless full [C02 C03]");
    __CPROVER_assert(!full || (G_RAND < cap0 && victim != key && !u_has(self, victim)), "U rr insert path: when full the resident of the drawn slot is evicted, never the new key [C03 C15]");
    __CPROVER_assert(G_g == key || (full && G_g == victim) || KEPT(g0, g1), "U rr insert path: every other key kept [C01 C03 C15]");
}
#define INSERT_PRE()                                                                                                          \
    uint64_t pv = self->m_elements.data[G_RAND].m_open_list_position;                                                         \
    uint64_t pos[] = {pv};                                                                                                    \
    uint64_t keys[] = {G_g, key};                                                                                             \
    u_assume_wf(self, pos, 1, keys, 2);                                                                                       \
    bool full = USED(self) >= CAP(self);                                                                                      \
    __CPROVER_assume(!full || G_RAND >= CAP(self) || (pv < USED(self) && OPEN(self, pv) == G_RAND));                          \
    uint64_t victim = self->P_H.kv[self->m_elements.data[G_RAND < CAP(self) ? G_RAND : 0].m_keyed_position].first;            \
    KEY(victim)

void h_do_insert(void)
{
    rr_cache *self = u_bind();
    uint64_t key, value;
    __CPROVER_assume(self->m_lock.m_lock.held);
    INSERT_PRE();
    __CPROVER_assume(!u_has(self, key));
    SNAP();
    rr_cache__do_insert(self, key, value);
    ASSERT_WF("rr do_insert");
    post_insert(self, key, value, g0, used0, cap0, full, victim);
    __CPROVER_assert(0, "vacuity sentinel");
}

#define INSERT_POST(fn)                                                                                                       \
    __CPROVER_assert(r == (k0.has ? (a & 2) != 0 : (a & 1) != 0), "U " fn ": result obeys the allow mode [C09]");               \
    __CPROVER_assert(r || (KEPT(g0, g1) && KEPT(k0, k1) && USED(self) == used0), "U " fn ": a rejected call changes nothing [C09 C19]"); \
    if (r && k0.has) __CPROVER_assert(k1.has && k1.val == value && USED(self) == used0 && (G_g == key || KEPT(g0, g1)), "U " fn ": update replaces the value, keeps the rest [C01 C03 C09]"); \
    if (r && !k0.has) post_insert(self, key, value, g0, used0, cap0, full, victim)

void h_do_insert_update(void)
{
    rr_cache *self = u_bind();
    uint64_t key, value, a;
    __CPROVER_assume(self->m_lock.m_lock.held && a >= 1 && a <= 3);
    INSERT_PRE();
    SNAP();
    uvw  k0 = u_view(self, key);
    bool r = rr_cache__do_insert_update(self, key, value, a);
    uvw  g1 = u_view(self, G_g), k1 = u_view(self, key);
    ASSERT_WF("rr do_insert_update");
    INSERT_POST("rr do_insert_update");
    __CPROVER_assert(0, "vacuity sentinel");
}

void h_insert(void)
{
    rr_cache *self = u_bind();
    uint64_t key, value, a;
    __CPROVER_assume(!self->m_lock.m_lock.held && self->m_lock.m_lock.acq < UINT64_MAX - 1 && a >= 1 && a <= 3);
    INSERT_PRE();
    SNAP();
    uvw  k0 = u_view(self, key);
    bool r = rr_cache__insert(self, key, value, a);
    uvw  g1 = u_view(self, G_g), k1 = u_view(self, key);
    ASSERT_WF_PUB("rr insert");
    INSERT_POST("rr insert");
    __CPROVER_assert(0, "vacuity sentinel");
}

void h_erase(void)
{
    rr_cache *self = u_bind();
    uint64_t key;
    __CPROVER_assume(!self->m_lock.m_lock.held && self->m_lock.m_lock.acq < UINT64_MAX - 1);
    uint64_t keys[] = {G_g, key};
    u_assume_wf(self, 0, 0, keys, 2);
    SNAP();
    uvw  k0 = u_view(self, key);
    bool r = rr_cache__erase(self, key);
    uvw  g1 = u_view(self, G_g);
    ASSERT_WF_PUB("rr erase");
    __CPROVER_assert(r == k0.has && !u_has(self, key), "U rr erase: reports whether the key was present; absent afterwards [C01 C03]");
    __CPROVER_assert((G_g == key || KEPT(g0, g1)) && USED(self) + (r ? 1 : 0) == used0, "U rr erase: every other key kept; size [C01 C02 C03 C19]");
    __CPROVER_assert(0, "vacuity sentinel");
}

void h_find(void)
{
    rr_cache *self = u_bind();
    uint64_t key;
    __CPROVER_assume(!self->m_lock.m_lock.held && self->m_lock.m_lock.acq < UINT64_MAX - 1);
    uint64_t keys[] = {G_g, key};
    u_assume_wf(self, 0, 0, keys, 2);
    SNAP();
    uvw k0 = u_view(self, key);
    cstl_opt r = rr_cache__find(self, key);
    uvw g1 = u_view(self, G_g), k1 = u_view(self, key);
    ASSERT_WF_PUB("rr find");
    __CPROVER_assert(r.has == k0.has && (!r.has || r.v == k0.val), "U rr find: a hit returns the stored value, a miss reports absent [C01]");
    __CPROVER_assert(KEPT(g0, g1) && KEPT(k0, k1) && USED(self) == used0, "U rr find: nothing changes [C01 C03 C19]");
    __CPROVER_assert(0, "vacuity sentinel");
}
