#!/usr/bin/env python3
"""mk_ut_set_u.py -- derive the route U specification of ut_set from ut_map's (same structure without values).
Run by hand after editing ut_map_u.{h,c}; the derived files are committed."""
import os, re
D = os.path.dirname(os.path.abspath(__file__))
h = open(os.path.join(D, 'ut_map_u.h')).read()
h = h.replace('ut_map', 'ut_set').replace('UT_MAP', 'UT_SET')
h = h.replace("static inline uint64_t u_val(const C_ *c, uint64_t k) { return RP(c)->kv[RP(c)->idx[k]].second.m_value; }\n", "")
open(os.path.join(D, 'ut_set_u.h'), 'w').write(h)
c = open(os.path.join(D, 'ut_map_u.c')).read()
c = c.replace('ut_map', 'ut_set')
R = [
    ("typedef struct { bool has; uint64_t val; cstl_tp exp; } uvw;", "typedef struct { bool has; cstl_tp exp; } uvw;"),
    ("uvw r; r.has = u_has(c, k); r.val = r.has ? u_val(c, k) : 0; r.exp", "uvw r; r.has = u_has(c, k); r.exp"),
    ("(!(a).has || ((b).val == (a).val && (b).exp == (a).exp))", "(!(a).has || (b).exp == (a).exp)"),
    ("(!(b).has || ((b).val == (a).val && (b).exp == (a).exp))", "(!(b).has || (b).exp == (a).exp)"),
    ("(u_val(self, (k)) == u_val(&SA, (k)) && u_exp(self, (k)) == u_exp(&SA, (k)))", "(u_exp(self, (k)) == u_exp(&SA, (k)))"),
    ("cstl_opt r = ut_set__do_find(self, key);", "bool r = ut_set__do_find(self, key);"),
    ("cstl_opt r = ut_set__find(self, key);", "bool r = ut_set__find(self, key);"),
    ("r.has == k0.has && (!r.has || r.v == k0.val)", "r == k0.has"),
    ("r.has == k_live && (!r.has || r.v == kA.val)", "r == k_live"),
    ("a hit returns the stored value, a miss reports absent", "membership is reported truthfully"),
    ("a live entry is served with its value, an expired or absent one is not", "a live member is reported, an expired or absent one is not"),
    ("cstl_iter kp; uint64_t value; cstl_tp expire_time;", "cstl_iter kp; cstl_tp expire_time;"),
    ("ut_set__do_update(self, kp, value, expire_time);", "ut_set__do_update(self, kp, expire_time);"),
    ("k1.has && k1.val == value && k1.exp == ", "k1.has && k1.exp == "),
    ("uint64_t key, value; cstl_tp expire_time;", "uint64_t key; cstl_tp expire_time;"),
    ("uint64_t key, value, a; cstl_tp expire_time;", "uint64_t key, a; cstl_tp expire_time;"),
    ("    uint64_t key, value, a;\n", "    uint64_t key, a;\n"),
    ("ut_set__do_insert(self, key, value, expire_time);", "ut_set__do_insert(self, key, expire_time);"),
    ("ut_set__do_insert_update(self, key, value, expire_time, a);", "ut_set__do_insert_update(self, key, expire_time, a);"),
    ("ut_set__insert(self, key, value, a);", "ut_set__insert(self, key, a);"),
    ("value replaced, deadline restarted", "deadline restarted"), ("stored with value and deadline", "stored with its deadline"),
    ("stores value and deadline", "stores the key with its deadline"), ("keep value and deadline", "keep their deadline"),
    ("kept with value and deadline", "kept with its deadline"), ("stores the value with deadline now + ttl", "stores the key with deadline now + ttl"),
    ("static ut_set__R_node ", "static ut_set__R_node "),
]
for a, b in R:
    c = c.replace(a, b)
assert not re.search(r'\bvalue\b|[gk][01A]\.val\b|u_val', c), [m.group(0) for m in re.finditer(r'.*(\bvalue\b|\.val\b|u_val).*', c)]
open(os.path.join(D, 'ut_set_u.c'), 'w').write('/* DERIVED from ut_map_u.c by mk_ut_set_u.py -- edit that file */\n' + c)
